#!/bin/bash
# Offline build of the simulator against /repo (hooks enabled) + model unit tests + a short determinism self-test.
set -eu
ROOT="$(cd "$(dirname "${BASH_SOURCE[0]}")" && pwd)"
export CARGO_NET_OFFLINE=true
cd "$ROOT/sim"
cargo build --release --offline
cargo test --release --offline --quiet
cd "$ROOT"
./selftest.sh quick

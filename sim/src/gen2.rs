//! Generators of the fault, crash, concurrency and tool profiles.

use crate::plan::*;

pub fn gen_plan2(property: &str, profile: &str, seed: u64) -> Plan {
    panic!("unknown profile {} for {} seed {}", profile, property, seed)
}

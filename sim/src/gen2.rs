//! Generators of the fault, crash, cancellation, stored-byte-fault, concurrency and liveness profiles.

use crate::exec::{run_plan, RunOpts, RunOutcome};
use crate::gen::*;
use crate::plan::*;
use crate::rng::Rng;
use crate::world::{EIO, ENOSPC};

const MIX_CRASH: Mix = Mix { write: 55, delete: 22, idle: 6, lifecycle: 5, lifecycle_bg: 0, force: 2, free: 0, offload: 0, fsync: 2, restart: 0, clock: 0 };
const MIX_AFTER: Mix = Mix { write: 60, delete: 25, idle: 5, lifecycle: 0, lifecycle_bg: 0, force: 0, free: 0, offload: 0, fsync: 0, restart: 0, clock: 0 };

pub const KEEP_LEN_MINUS_1: u32 = u32::MAX - 1;
pub const KEEP_HALF: u32 = u32::MAX - 2;

fn kill_keeps(key_len: u16) -> Vec<u32> {
    let hl = 57 + key_len as u32;
    vec![0, 1, hl, hl + 8, KEEP_LEN_MINUS_1, u32::MAX]
}

fn power_cut(rng: &mut Rng) -> PowerCut {
    PowerCut { keep_permille: rng.below(1001) as u32, keep_bytes: if rng.chance(1, 3) { Some(rng.range(0, 300)) } else { None }, torn: *rng.pick(&[0u8, 0, 0, 1, 2]), others_keep_all: rng.chance(1, 2), lost_write: if rng.chance(1, 4) { Some(rng.below(6) as u32) } else { None }, lost_block: None }
}

/// number of mutating I/O events of session 0 when nothing fails
fn mutating_events(plan: &Plan) -> u64 {
    let mut base = plan.clone();
    base.sessions.truncate(1);
    base.sessions[0].end = SessionEnd::Close;
    base.faults.clear();
    let out = run_plan(&base, &RunOpts::default());
    out.mut_events_per_session.first().copied().unwrap_or(0)
}

/// Histories with one crash per run: kill (partial write) or power loss, recovery, writes after
/// recovery, further restarts (C06; monitors C07).
pub fn gen_crash(property: &str, profile: &str, seed: u64) -> Plan {
    let (mut plan, mut sw) = base_plan(property, profile, seed);
    plan.store.max_data_in_blob = *sw.rng.pick(&[1u64, 2, 3, 3, 4, 6, 16]);
    if sw.rng.chance(1, 2) {
        plan.store.deferred_min_ms = 100;
        plan.store.deferred_max_ms = 300;
    }
    plan.store.ignore_corrupted = sw.rng.chance(1, 6);
    sw.big_values = sw.rng.chance(1, 5);
    let big_index = profile.starts_with("crash-power-index");
    if big_index {
        // index files of several 4 KiB blocks: 200-byte keys, some hundred records per blob
        plan.store.key_len = 200;
        plan.n_keys = 120;
        sw.n_keys = 120;
        plan.store.max_data_in_blob = *sw.rng.pick(&[40u64, 80, 150]);
        plan.store.max_blob_size = 10_000_000;
        plan.store.deferred_min_ms = 100;
        plan.store.deferred_max_ms = 300;
        plan.store.ignore_corrupted = false;
        plan.check_each_step = false;
        sw.big_values = false;
    }
    let n0 = if big_index { sw.rng.range(100, 400) } else { sw.rng.range(3, 28) } as usize;
    let mut ops0 = Vec::new();
    for _ in 0..n0 {
        ops0.push(gen_op(&mut sw, &MIX_CRASH, plan.store.key_len));
    }
    let power = profile.contains("power") || (!profile.contains("kill") && sw.rng.chance(1, 2));
    let mut s0 = SessionPlan::sequential(ops0);
    s0.lazy_init = sw.rng.chance(1, 6);
    s0.end = if power { SessionEnd::PowerLoss(power_cut(&mut sw.rng)) } else { SessionEnd::Killed };
    let mut ops1 = Vec::new();
    for _ in 0..sw.rng.range(2, 8) {
        ops1.push(gen_op(&mut sw, &MIX_AFTER, plan.store.key_len));
    }
    // sometimes the recovery session opens lazily and does nothing at all (a directory that holds
    // only quarantined files is then met by the next start)
    if sw.rng.chance(1, 8) {
        ops1.clear();
    }
    let mut s1 = SessionPlan::sequential(ops1);
    s1.lazy_init = sw.rng.chance(1, 4);
    if sw.rng.chance(1, 3) {
        s1.validate_data = Some(!plan.store.validate_data);
    }
    let mut ops2 = Vec::new();
    for _ in 0..sw.rng.range(1, 5) {
        ops2.push(gen_op(&mut sw, &MIX_AFTER, plan.store.key_len));
    }
    // one more clean restart inside the last session
    let uid = sw.uid();
    ops2.push(Op { uid, think_ms: 0, kind: OpKind::Restart { lazy: sw.rng.chance(1, 2), damage: if sw.rng.chance(1, 2) { vec![AtRest::IndexRemove { blob: sw.rng.below(6) as usize }] } else { vec![] } } });
    let mut s2 = SessionPlan::sequential(ops2);
    if sw.rng.chance(1, 3) {
        s2.validate_data = Some(sw.rng.chance(1, 2));
    }
    if profile.starts_with("crash-power-index") {
        // the power fails while an index file is being written: its un-synced writes (body, then the
        // header rewrite that marks it complete) reach the disk in any order
        let mut cut = power_cut(&mut sw.rng);
        cut.lost_write = None;
        cut.lost_block = Some(sw.rng.below(64) as u32);
        cut.others_keep_all = true;
        cut.torn = 0;
        s0.end = SessionEnd::PowerLoss(cut);
        // per-step comparisons are off in this profile (120 keys): compare right after recovery
        let uid = sw.uid();
        s1.clients[0].insert(0, Op { uid, think_ms: 0, kind: OpKind::CheckNow });
        let uid = sw.uid();
        s1.clients[0].push(Op { uid, think_ms: 0, kind: OpKind::CheckNow });
        let uid = sw.uid();
        s2.clients[0].push(Op { uid, think_ms: 0, kind: OpKind::CheckNow });
        plan.sessions = vec![s0, s1, s2];
        let n = sw.rng.below(6);
        plan.faults = vec![FaultSpec { session: 0, sel: Sel::Nth { kind: if sw.rng.chance(1, 2) { IoKind::Sync } else { IoKind::Write }, class: PathClass::Index, n }, action: FaultAction::Kill { keep: if sw.rng.chance(1, 2) { 0 } else { u32::MAX } } }];
        return plan;
    }
    let double = profile.starts_with("crash-double");
    if double {
        // a process kill, then (in the recovery session) a power loss: un-synced bytes that survived
        // the kill in the page cache are lost by the second crash unless something synced them
        s0.end = SessionEnd::Killed;
        s1.end = SessionEnd::PowerLoss(power_cut(&mut sw.rng));
        s1.lazy_init = false;
    }
    plan.sessions = vec![s0, s1, s2];
    if !profile.contains("sweep") {
        let m = mutating_events(&plan).max(1);
        let e = sw.rng.below(m);
        let keep = *sw.rng.pick(&kill_keeps(plan.store.key_len));
        plan.faults = vec![FaultSpec { session: 0, sel: Sel::Global { n: e }, action: FaultAction::Kill { keep } }];
        if double {
            if sw.rng.chance(1, 2) {
                let e1 = sw.rng.below(24);
                let keep1 = *sw.rng.pick(&kill_keeps(plan.store.key_len));
                plan.faults.push(FaultSpec { session: 1, sel: Sel::Global { n: e1 }, action: FaultAction::Kill { keep: keep1 } });
            } else {
                // right after an index file became durable: is the blob it describes durable too?
                plan.faults.push(FaultSpec { session: 1, sel: Sel::Nth { kind: IoKind::Sync, class: PathClass::Index, n: sw.rng.below(3) }, action: FaultAction::Kill { keep: u32::MAX } });
            }
        }
    }
    plan
}

/// Concurrent clients cut by a process kill, then the sequential recovery sessions of `gen_crash`
/// (C06: several operations are in flight at the crash; with closures on their own threads the kill
/// can land between the I/O calls of two overlapping closures).
pub fn gen_crash_conc(property: &str, profile: &str, seed: u64) -> Plan {
    let mut plan = crate::gen3::gen_conc(property, profile, seed);
    let mut sw = Swarm { rng: Rng::new(seed ^ 0xC0C0_C4A5_0001), next_uid: 100_000, n_keys: plan.n_keys, n_metas: 0, ts_max: 8, big_values: false };
    plan.sessions.truncate(1);
    plan.sessions[0].end = SessionEnd::Killed;
    plan.store.ignore_corrupted = sw.rng.chance(1, 6);
    plan.sched.preempt_jobs = sw.rng.chance(1, 2);
    if plan.sched.preempt_jobs {
        plan.sched.inplace_small = false;
    }
    let mut ops1 = Vec::new();
    for _ in 0..sw.rng.range(2, 8) {
        ops1.push(gen_op(&mut sw, &MIX_AFTER, plan.store.key_len));
    }
    let s1 = SessionPlan::sequential(ops1);
    let mut ops2 = Vec::new();
    for _ in 0..sw.rng.range(1, 5) {
        ops2.push(gen_op(&mut sw, &MIX_AFTER, plan.store.key_len));
    }
    let uid = sw.uid();
    ops2.push(Op { uid, think_ms: 0, kind: OpKind::Restart { lazy: sw.rng.chance(1, 2), damage: if sw.rng.chance(1, 2) { vec![AtRest::IndexRemove { blob: sw.rng.below(6) as usize }] } else { vec![] } } });
    let s2 = SessionPlan::sequential(ops2);
    plan.sessions.push(s1);
    plan.sessions.push(s2);
    let m = mutating_events(&plan).max(1);
    // the second half of the session has more operations in flight
    let e = if sw.rng.chance(1, 2) { sw.rng.below(m) } else { m / 2 + sw.rng.below(m - m / 2) };
    let keep = *sw.rng.pick(&kill_keeps(plan.store.key_len));
    plan.faults = vec![FaultSpec { session: 0, sel: Sel::Global { n: e }, action: FaultAction::Kill { keep } }];
    plan
}

/// Histories with injected I/O failures (C11).
pub fn gen_iofault(property: &str, profile: &str, seed: u64) -> Plan {
    let (mut plan, mut sw) = base_plan(property, profile, seed);
    plan.store.max_data_in_blob = *sw.rng.pick(&[2u64, 3, 3, 4, 6]);
    plan.store.deferred_min_ms = 100;
    plan.store.deferred_max_ms = 300;
    let mix = Mix { write: 50, delete: 20, idle: 8, lifecycle: 6, lifecycle_bg: 0, force: 2, free: 1, offload: 0, fsync: 3, restart: 0, clock: 0 };
    let n0 = sw.rng.range(6, 26) as usize;
    let mut ops = Vec::new();
    for _ in 0..n0 {
        ops.push(gen_op(&mut sw, &mix, plan.store.key_len));
    }
    // after the faults: let background work finish, probe rotation, restart, a few more operations
    let uid = sw.uid();
    ops.push(Op { uid, think_ms: 0, kind: OpKind::Idle { ms: 60_000 } });
    let uid = sw.uid();
    ops.push(Op { uid, think_ms: 0, kind: OpKind::OverflowProbe { max_writes: 40, gap_ms: 300 } });
    let uid = sw.uid();
    ops.push(Op { uid, think_ms: 0, kind: OpKind::Restart { lazy: sw.rng.chance(1, 2), damage: vec![] } });
    for _ in 0..sw.rng.range(1, 4) {
        ops.push(gen_op(&mut sw, &MIX_AFTER, plan.store.key_len));
    }
    plan.sessions = vec![SessionPlan::sequential(ops)];
    if !profile.contains("sweep") {
        let nf = sw.rng.range(1, 3);
        for _ in 0..nf {
            plan.faults.push(random_io_fault(&mut sw.rng));
        }
    }
    plan
}

fn random_io_fault(rng: &mut Rng) -> FaultSpec {
    let kind = *rng.pick(&[IoKind::Write, IoKind::Write, IoKind::Write, IoKind::Sync, IoKind::Sync, IoKind::Create, IoKind::Open]);
    let class = *rng.pick(&[PathClass::Blob, PathClass::Blob, PathClass::Index]);
    let errno = *rng.pick(&[ENOSPC, EIO]);
    let n = match kind {
        IoKind::Write => rng.below(30),
        IoKind::Sync => rng.below(20),
        _ => rng.below(8),
    };
    let action = if kind == IoKind::Write && rng.chance(1, 2) { FaultAction::Short { keep: *rng.pick(&[1u32, KEEP_HALF, KEEP_LEN_MINUS_1]), errno } } else { FaultAction::Fail { errno } };
    FaultSpec { session: 0, sel: Sel::Nth { kind, class, n }, action }
}

/// Histories in which operation futures are dropped after k polls (C14).
pub fn gen_cancel(property: &str, profile: &str, seed: u64) -> Plan {
    let (mut plan, mut sw) = base_plan(property, profile, seed);
    plan.store.max_data_in_blob = *sw.rng.pick(&[2u64, 3, 4, 6, 16]);
    plan.store.deferred_min_ms = 100;
    plan.store.deferred_max_ms = 300;
    // every I/O is a suspension point in half of the runs (current-thread flavour)
    sw.big_values = sw.rng.chance(1, 3);
    // a third of the runs: blocking closures on their own threads, interleaved at I/O-call granularity
    plan.sched.preempt_jobs = sw.rng.chance(1, 3);
    if plan.sched.preempt_jobs {
        plan.sched.inplace_small = false;
    }
    let mix = Mix { write: 50, delete: 22, idle: 5, lifecycle: 8, lifecycle_bg: 0, force: 0, free: 2, offload: 0, fsync: 3, restart: 0, clock: 0 };
    let n0 = sw.rng.range(5, 22) as usize;
    let mut ops = Vec::new();
    let write_only = Mix { write: 1, delete: 0, idle: 0, lifecycle: 0, lifecycle_bg: 0, force: 0, free: 0, offload: 0, fsync: 0, restart: 0, clock: 0 };
    let mut after_cancelled_write = false;
    for i in 0..n0 {
        // a write right behind a cancelled write: both append to the same blob
        let mut op = if after_cancelled_write && sw.rng.chance(1, 2) { gen_op(&mut sw, &write_only, plan.store.key_len) } else { gen_op(&mut sw, &mix, plan.store.key_len) };
        after_cancelled_write = false;
        if !profile.contains("sweep") && i >= 1 && sw.rng.chance(1, 4) && !matches!(op.kind, OpKind::Idle { .. }) {
            let k = sw.rng.below(9) as u32;
            after_cancelled_write = matches!(op.kind, OpKind::Write { .. });
            op.kind = OpKind::Cancelled { k, op: Box::new(op.kind.clone()) };
        }
        ops.push(op);
    }
    let uid = sw.uid();
    ops.push(Op { uid, think_ms: 0, kind: OpKind::Idle { ms: 2_000 } });
    let uid = sw.uid();
    ops.push(Op { uid, think_ms: 0, kind: OpKind::Restart { lazy: sw.rng.chance(1, 2), damage: if sw.rng.chance(1, 2) { vec![AtRest::IndexRemove { blob: sw.rng.below(6) as usize }] } else { vec![] } } });
    for _ in 0..sw.rng.range(1, 4) {
        ops.push(gen_op(&mut sw, &MIX_AFTER, plan.store.key_len));
    }
    plan.sessions = vec![SessionPlan::sequential(ops)];
    plan
}

/// Value sizes across every threshold, then stored bytes altered at rest or under an open storage (C05).
pub fn gen_bitflip(property: &str, profile: &str, seed: u64) -> Plan {
    let (mut plan, mut sw) = base_plan(property, profile, seed);
    plan.store.max_data_in_blob = *sw.rng.pick(&[2u64, 3, 4, 8, 64]);
    plan.store.deferred_min_ms = 100;
    plan.store.deferred_max_ms = 300;
    plan.store.allow_duplicates = true;
    // two-entry metas serialise in HashMap order, which differs between processes: a flip at a byte
    // position of such a meta would not be replayable
    plan.n_metas = plan.n_metas.min(2);
    sw.n_metas = plan.n_metas;
    sw.big_values = true;
    let mix = Mix { write: 70, delete: 10, idle: 8, lifecycle: 4, lifecycle_bg: 0, force: 0, free: 0, offload: 0, fsync: 0, restart: 3, clock: 0 };
    let n0 = sw.rng.range(3, 14) as usize;
    let mut ops = Vec::new();
    for _ in 0..n0 {
        ops.push(gen_op(&mut sw, &mix, plan.store.key_len));
    }
    if profile.contains("sweep") {
        // index in memory or (after the idle period) on disk, then every position of one record's data
        if sw.rng.chance(1, 2) {
            let uid = sw.uid();
            ops.push(Op { uid, think_ms: 0, kind: OpKind::Idle { ms: 1_000 } });
        }
        let uid = sw.uid();
        let class = *sw.rng.pick(&[ByteClass::Data, ByteClass::Data, ByteClass::Data, ByteClass::Meta, ByteClass::RecHeader]);
        ops.push(Op { uid, think_ms: 0, kind: OpKind::FlipSweep { blob: sw.rng.below(6) as usize, rec: sw.rng.below(8) as usize, class, max_positions: if profile.contains("full") { 4096 } else { 48 } } });
    } else if !profile.contains("clean") {
        let classes = [ByteClass::Data, ByteClass::Data, ByteClass::Data, ByteClass::Data, ByteClass::Meta, ByteClass::RecHeader, ByteClass::BlobHeader];
        let flip = |rng: &mut Rng| AtRest::BitFlip { blob: rng.below(6) as usize, rec: rng.below(8) as usize, class: *rng.pick(&classes), off: rng.below(1 << 20) as u32, mask: burst(rng) };
        if sw.rng.chance(1, 2) {
            // under the open storage (index in memory, or on disk after the idle period)
            if sw.rng.chance(1, 2) {
                let uid = sw.uid();
                ops.push(Op { uid, think_ms: 0, kind: OpKind::Idle { ms: 1_000 } });
            }
            let uid = sw.uid();
            let f = flip(&mut sw.rng);
            ops.push(Op { uid, think_ms: 0, kind: OpKind::Damage(f) });
        } else {
            let mut damage = vec![flip(&mut sw.rng)];
            if sw.rng.chance(1, 2) {
                damage.push(AtRest::IndexRemove { blob: sw.rng.below(6) as usize });
            }
            let uid = sw.uid();
            ops.push(Op { uid, think_ms: 0, kind: OpKind::Restart { lazy: sw.rng.chance(1, 2), damage } });
        }
        for _ in 0..sw.rng.range(0, 3) {
            ops.push(gen_op(&mut sw, &MIX_AFTER, plan.store.key_len));
        }
    }
    plan.sessions = vec![SessionPlan::sequential(ops)];
    plan
}

/// a burst of at most 32 bits: 1..=4 consecutive bytes with arbitrary bit patterns
fn burst(rng: &mut Rng) -> u32 {
    let m = match rng.below(4) {
        0 => 1u32 << rng.below(8),
        1 => (rng.next() as u32) & 0xFF,
        2 => (rng.next() as u32) & 0xFFFF,
        _ => rng.next() as u32,
    };
    if m == 0 {
        1
    } else {
        m
    }
}

// ------------------------------------------------------------------------------------------
// sweeps: a fault-free base run counts the fault sites, then one run per site

pub fn expand_sweep(base: &Plan, out: &RunOutcome, thorough: bool) -> Vec<Plan> {
    let profile = base.profile.split('+').next().unwrap_or("");
    let mut rng = Rng::new(base.seed ^ 0x5EED);
    let mut plans = Vec::new();
    if profile.starts_with("crash") {
        let m = out.mut_events_per_session.first().copied().unwrap_or(0);
        let keeps = kill_keeps(base.store.key_len);
        let mut sites: Vec<(u64, u32)> = Vec::new();
        for e in 0..m {
            for k in keeps.iter() {
                sites.push((e, *k));
            }
        }
        let cap = if thorough { 4000 } else { 160 };
        let sites = sample(sites, cap, &mut rng);
        for (e, keep) in sites {
            let mut p = base.clone();
            p.faults = vec![FaultSpec { session: 0, sel: Sel::Global { n: e }, action: FaultAction::Kill { keep } }];
            if let SessionEnd::PowerLoss(_) = p.sessions[0].end {
                // every cut of the un-synced tail is its own run: vary the cut with the site
                p.sessions[0].end = SessionEnd::PowerLoss(PowerCut { keep_permille: ((e * 131 + keep as u64 * 17) % 1001) as u32, keep_bytes: if e % 3 == 0 { Some((e * 7 + keep as u64) % 260) } else { None }, torn: ((e + keep as u64) % 5).min(2) as u8 % 3, others_keep_all: e % 2 == 0, lost_write: if e % 5 == 4 { Some((e % 3) as u32) } else { None }, lost_block: None });
            }
            plans.push(p);
        }
    } else if profile.starts_with("iofault") {
        // every n-th operation of every kind on every path class, both errnos, short writes
        let mut sites: Vec<FaultSpec> = Vec::new();
        let m = out.mut_events_per_session.first().copied().unwrap_or(0);
        for e in 0..m {
            for errno in [ENOSPC, EIO] {
                sites.push(FaultSpec { session: 0, sel: Sel::Global { n: e }, action: FaultAction::Fail { errno } });
            }
            for keep in [1u32, KEEP_HALF, KEEP_LEN_MINUS_1] {
                sites.push(FaultSpec { session: 0, sel: Sel::Global { n: e }, action: FaultAction::Short { keep, errno: if e % 2 == 0 { ENOSPC } else { EIO } } });
            }
        }
        let cap = if thorough { 4000 } else { 160 };
        for f in sample(sites, cap, &mut rng) {
            let mut p = base.clone();
            p.faults = vec![f];
            plans.push(p);
        }
    } else if profile.starts_with("cancel") {
        // every operation x every poll count k < polls needed (bounded)
        let ops = &base.sessions[0].clients[0];
        let mut sites: Vec<(usize, u32)> = Vec::new();
        for (i, op) in ops.iter().enumerate() {
            if matches!(op.kind, OpKind::Idle { .. } | OpKind::Restart { .. } | OpKind::Offload { .. } | OpKind::ClockJump { .. } | OpKind::OverflowProbe { .. } | OpKind::Damage(_) | OpKind::Cancelled { .. } | OpKind::RestartSweep { .. }) {
                continue;
            }
            for k in 0..14u32 {
                sites.push((i, k));
            }
        }
        let cap = if thorough { 4000 } else { 160 };
        for (i, k) in sample(sites, cap, &mut rng) {
            let mut p = base.clone();
            let op = &mut p.sessions[0].clients[0][i];
            op.kind = OpKind::Cancelled { k, op: Box::new(op.kind.clone()) };
            plans.push(p);
        }
    }
    plans
}

fn sample<T>(mut v: Vec<T>, cap: usize, rng: &mut Rng) -> Vec<T> {
    if v.len() <= cap {
        return v;
    }
    // partial Fisher-Yates
    for i in 0..cap {
        let j = i + rng.below((v.len() - i) as u64) as usize;
        v.swap(i, j);
    }
    v.truncate(cap);
    v
}

pub fn gen_plan2(property: &str, profile: &str, seed: u64) -> Plan {
    let base = profile.split('+').next().unwrap_or(profile);
    if base == "crash-conc" {
        gen_crash_conc(property, profile, seed)
    } else if base.starts_with("crash") {
        gen_crash(property, profile, seed)
    } else if base.starts_with("iofault") {
        gen_iofault(property, profile, seed)
    } else if base.starts_with("cancel") {
        gen_cancel(property, profile, seed)
    } else if base.starts_with("bitflip") {
        gen_bitflip(property, profile, seed)
    } else {
        crate::gen3::gen_plan3(property, profile, seed)
    }
}

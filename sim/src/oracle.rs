//! Oracles that are not part of the per-key query comparison: accounting (C15), file
//! snapshots (C07), sync discipline over the trace (C12), restart counters (C03), liveness (C13).

use crate::exec::*;
use crate::plan::*;
use crate::world::*;
use pearl::{Key, Storage};
use std::collections::{BTreeMap, BTreeSet};
use std::rc::Rc;

pub fn needs_trace(plan: &Plan) -> bool {
    // the C12 oracle walks the ordered trace
    plan.property == "C12" || crate::session::has_flag(plan, "trace")
}

/// Wait (in simulated time) until background work has quiesced: no simulated job in flight and
/// no I/O during three consecutive 2 ms windows. Capped at 300 simulated seconds.
pub async fn settle(ctx: &Rc<RunCtx>) -> bool {
    let world = ctx.world.clone();
    let t0 = world.sim_ms();
    let mut quiet = 0;
    let mut last = {
        let w = world.inner.borrow();
        (w.seq, w.reads)
    };
    loop {
        tokio::time::sleep(std::time::Duration::from_millis(2)).await;
        let (cur, inflight) = {
            let w = world.inner.borrow();
            ((w.seq, w.reads), w.jobs_in_flight)
        };
        if cur == last && inflight == 0 {
            quiet += 1;
            if quiet >= 3 {
                return true;
            }
        } else {
            quiet = 0;
            last = cur;
        }
        if world.kill_flag.get() {
            return false;
        }
        if world.sim_ms() - t0 > 300_000 {
            world.probe("settle_timeout");
            return false;
        }
    }
}

#[derive(Debug, Clone, PartialEq)]
pub struct CounterSnap {
    pub records_count: usize,
    pub detailed: Vec<(usize, usize)>,
    pub in_active: Option<usize>,
    pub blobs_count: usize,
    pub next_blob_id: usize,
    pub corrupted: usize,
    pub disk_used: u64,
    pub has_active: bool,
}

pub async fn counters_snapshot<K>(storage: &Storage<K>) -> CounterSnap
where
    for<'a> K: Key<'a> + AsRef<K> + 'static,
{
    CounterSnap {
        records_count: storage.records_count().await,
        detailed: storage.records_count_detailed().await,
        in_active: storage.records_count_in_active_blob().await,
        blobs_count: storage.blobs_count().await,
        next_blob_id: storage.next_blob_id(),
        corrupted: storage.corrupted_blobs_count(),
        disk_used: storage.disk_used().await,
        has_active: storage.has_active_blob().await,
    }
}

fn count_corrupted_files(ctx: &RunCtx) -> usize {
    let mut n = 0;
    if let Ok(rd) = std::fs::read_dir(ctx.dir.join(CORRUPTED)) {
        for e in rd.flatten() {
            let p = e.path();
            if p.is_file() && p.extension().and_then(|x| x.to_str()) == Some("blob") {
                n += 1;
            }
        }
    }
    n
}

/// C15: every counter equals the value implied by the physical history and the directory.
pub async fn check_accounting<K>(ctx: &Rc<RunCtx>, storage: &Storage<K>, phase: &str)
where
    for<'a> K: Key<'a> + AsRef<K> + 'static,
{
    let world = ctx.world.clone();
    let tag = Some(Tag { client: QUERY_CLIENT, uid: 0 });
    if ctx.order_anomaly_reported.get() {
        return;
    }
    // C15 quantifies over histories with quarantines and restarts, not over injected I/O failures
    // or cancellations (a blob file left behind by a failed creation exists without being attached)
    if matches!(phase, "fault" | "cancel") {
        return;
    }
    world.set_query_phase(true);
    let snap = tagged(&world, tag, counters_snapshot(storage)).await;
    world.set_query_phase(false);
    let attached = ctx.attached();
    let note = ctx.last_step_note.borrow().clone();
    let (per_blob, max_seen, files): (BTreeMap<usize, usize>, Option<usize>, BTreeMap<String, u64>) = {
        let w = world.inner.borrow();
        let mut per = BTreeMap::new();
        for b in attached.iter() {
            per.insert(*b, w.phys.get(b).map(|v| v.iter().filter(|r| r.complete && r.header_crc_ok).count()).unwrap_or(0));
        }
        let mut files = BTreeMap::new();
        for (name, sh) in w.shadows.iter() {
            if !name.contains('/') && !sh.removed && !sh.quarantined {
                files.insert(name.clone(), sh.content.len() as u64);
            }
        }
        (per, w.ids_seen.iter().next_back().copied(), files)
    };
    let total: usize = per_blob.values().sum();
    let p = ["C15"];
    if snap.records_count != total {
        ctx.violate(&p, "records-count", format!("records_count differs from the number of stored records ({})", if snap.records_count > total { "too high" } else { "too low" }), format!("phase={} got {} expected {} per_blob={:?}; {}", phase, snap.records_count, total, per_blob, note));
    }
    // which blob is active is observed (label of the last entry), never predicted
    let active_id = if snap.has_active { snap.detailed.last().map(|x| x.0) } else { None };
    let mut exp_sorted: Vec<(usize, usize)> = per_blob.iter().map(|(b, c)| (*b, *c)).collect();
    exp_sorted.sort();
    let mut got_sorted = snap.detailed.clone();
    got_sorted.sort();
    if got_sorted != exp_sorted {
        let ids_equal = got_sorted.iter().map(|x| x.0).collect::<Vec<_>>() == exp_sorted.iter().map(|x| x.0).collect::<Vec<_>>();
        let cause = if ids_equal { "records_count_detailed differs from the per-blob record counts" } else { "records_count_detailed lists other blob ids than the blobs that exist" };
        ctx.violate(&p, "records-count-detailed", cause, format!("phase={} got {:?} expected {:?}; {}", phase, snap.detailed, exp_sorted, note));
    }
    let exp_in_active = active_id.and_then(|a| per_blob.get(&a).copied());
    if snap.in_active != exp_in_active {
        ctx.violate(&p, "records-count-active", "records_count_in_active_blob differs from the active blob's record count", format!("phase={} got {:?} expected {:?} (active blob {:?}); {}", phase, snap.in_active, exp_in_active, active_id, note));
    }
    if snap.blobs_count != attached.len() {
        let cause = if snap.blobs_count > attached.len() { "blobs_count is higher than the number of blobs that exist" } else { "blobs_count is lower than the number of blobs that exist" };
        ctx.violate(&p, "blobs-count", cause, format!("phase={} got {} expected {} ({:?}); {}", phase, snap.blobs_count, attached.len(), attached, note));
    }
    if ctx.plan.faults.is_empty() {
        let exp_next = max_seen.map(|m| m + 1).unwrap_or(0);
        if snap.next_blob_id != exp_next {
            let cause = if snap.next_blob_id < exp_next { "next_blob_id is not above every blob id ever present" } else { "next_blob_id skips ids" };
            ctx.violate(&["C15", "C03"], "next-blob-id", cause, format!("phase={} got {} expected {}; {}", phase, snap.next_blob_id, exp_next, note));
        }
    }
    let exp_corrupted = count_corrupted_files(ctx);
    if snap.corrupted != exp_corrupted {
        ctx.violate(&p, "corrupted-count", "corrupted_blobs_count differs from the number of blob files in the quarantine directory", format!("phase={} got {} expected {}; {}", phase, snap.corrupted, exp_corrupted, note));
    }
    // disk_used vs directory listing: blob files + index files of attached blobs
    let mut exp_disk = 0u64;
    let mut exp_disk_attached_only = 0u64;
    {
        let w = world.inner.borrow();
        for b in attached.iter() {
            let bl = files.get(&format!("{}.{}.blob", PREFIX, b)).copied().unwrap_or(0);
            let iname = format!("{}.{}.index", PREFIX, b);
            let il = files.get(&iname).copied().unwrap_or(0);
            exp_disk += bl + il;
            exp_disk_attached_only += bl;
            // the index counts as "attached" when it was completely written after the last append to the blob
            let last_append = w.shadows.get(&format!("{}.{}.blob", PREFIX, b)).map(|s| s.last_write_seq).unwrap_or(0);
            let idx_done = w.shadows.get(&iname).map(|s| if s.syncs > 0 && !s.removed { s.last_write_seq } else { 0 }).unwrap_or(0);
            // the active blob's index is always held in memory
            if il > 0 && idx_done > last_append && Some(*b) != active_id {
                exp_disk_attached_only += il;
            }
        }
    }
    // in the crash / fault profiles index files may also be stale leftovers of the crash: which of
    // them count is not tracked there, only that nothing but whole index files is missing
    let fault_phase = matches!(phase, "crash" | "fault" | "cancel" | "bitflip");
    if fault_phase && snap.disk_used != exp_disk {
        let blob_total: u64 = attached.iter().map(|b| files.get(&format!("{}.{}.blob", PREFIX, b)).copied().unwrap_or(0)).sum();
        let idx: Vec<u64> = attached.iter().map(|b| files.get(&format!("{}.{}.index", PREFIX, b)).copied().unwrap_or(0)).filter(|x| *x > 0).collect();
        if snap.disk_used >= blob_total && idx.len() <= 16 {
            let want = snap.disk_used - blob_total;
            let mut ok = false;
            for mask in 0..(1u32 << idx.len()) {
                let s: u64 = idx.iter().enumerate().filter(|(i, _)| mask & (1 << i) != 0).map(|(_, v)| *v).sum();
                if s == want {
                    ok = true;
                    break;
                }
            }
            if ok {
                exp_disk_attached_only = snap.disk_used;
            }
        }
    }
    if snap.disk_used != exp_disk {
        let cause = if snap.disk_used == exp_disk_attached_only { "disk_used omits index files that exist on disk while the blob's index is held in memory" } else { "disk_used differs from the size of the files on disk" };
        ctx.violate(&p, "disk-used", cause, format!("phase={} got {} expected {} (counting only indexes not held in memory: {}); {}", phase, snap.disk_used, exp_disk, exp_disk_attached_only, note));
    }
}

/// C12d: at a quiescent point the active blob's un-synced bytes do not exceed the configured limit.
pub async fn check_dirty_bound<K>(ctx: &Rc<RunCtx>, storage: &Storage<K>)
where
    for<'a> K: Key<'a> + AsRef<K> + 'static,
{
    if !ctx.plan.faults.is_empty() || ctx.order_anomaly_reported.get() {
        return;
    }
    if !storage.has_active_blob().await {
        return;
    }
    let Some(active) = storage.records_count_detailed().await.last().map(|x| x.0) else { return };
    let name = format!("{}.{}.blob", PREFIX, active);
    let limit = ctx.plan.store.max_dirty;
    let d = {
        let w = ctx.world.inner.borrow();
        match w.shadows.get(&name) {
            Some(sh) if !sh.quarantined && !sh.removed => {
                let dirty = sh.content.len() as u64 - sh.synced_len.min(sh.content.len() as u64);
                if dirty > limit {
                    // were all un-synced records appended while this blob was a closed blob?
                    let cw = ctx.closed_writes.borrow();
                    let recs = w.phys.get(&active).map(|v| v.iter().filter(|r| r.offset >= sh.synced_len).collect::<Vec<_>>()).unwrap_or_default();
                    // the recorded finding: markers appended while the blob was closed are outside pearl's
                    // accounting; it is the cause whenever the bytes pearl does account for are within the limit
                    let closed_bytes: u64 = recs.iter().filter(|r| r.deleted && cw.contains(&(r.blob, r.offset))).map(|r| r.total_len).sum();
                    let all_closed = closed_bytes > 0 && dirty - closed_bytes.min(dirty) <= limit;
                    Some((all_closed, format!("{} has {} un-synced bytes at a quiescent point, limit {}; {}", name, dirty, limit, ctx.last_step_note.borrow())))
                } else {
                    None
                }
            }
            _ => None,
        }
    };
    ctx.world.probe("dirty_bound_checked");
    if let Some((all_closed, d)) = d {
        let cause = if all_closed {
            "deletion markers appended to a closed blob are never synced; after the blob became active (restore or restart) its un-synced bytes stay above the limit"
        } else {
            "un-synced bytes of the active blob stay above the configured limit with no client action pending"
        };
        ctx.violate(&["C12"], "dirty-bound", cause, d);
    }
}

/// C13: every closed blob that holds records has an up-to-date index file (called after idling
/// longer than the maximal deferral).
pub async fn check_dumped<K>(ctx: &Rc<RunCtx>, storage: &Storage<K>)
where
    for<'a> K: Key<'a> + AsRef<K> + 'static,
{
    settle(ctx).await;
    let active = if storage.has_active_blob().await { storage.records_count_detailed().await.last().map(|x| x.0) } else { None };
    let attached = ctx.attached();
    let mut missing = Vec::new();
    {
        let w = ctx.world.inner.borrow();
        for b in attached.iter() {
            if Some(*b) == active {
                continue;
            }
            let nrec = w.phys.get(b).map(|v| v.iter().filter(|r| r.complete).count()).unwrap_or(0);
            if nrec == 0 {
                continue;
            }
            let bl = w.shadows.get(&format!("{}.{}.blob", PREFIX, b)).map(|s| s.last_write_seq).unwrap_or(0);
            let ok = w.shadows.get(&format!("{}.{}.index", PREFIX, b)).map(|s| !s.removed && s.syncs > 0 && !s.content.is_empty() && s.last_write_seq > bl).unwrap_or(false);
            if !ok {
                missing.push(*b);
            }
        }
    }
    ctx.world.probe("dump_completeness_checked");
    if !missing.is_empty() {
        ctx.violate(&["C13"], "index-dump-missing", "a closed blob that holds records has no up-to-date index file although more than the maximal deferral has passed without requests", format!("blobs {:?} active {:?}; {}", missing, active, ctx.last_step_note.borrow()));
    }
}

/// C03: counters that must survive a clean restart unchanged.
pub async fn compare_counters_after_restart<K>(ctx: &Rc<RunCtx>, before: &CounterSnap, storage: &Storage<K>, damage: &[AtRest])
where
    for<'a> K: Key<'a> + AsRef<K> + 'static,
{
    let after = counters_snapshot(storage).await;
    let p = ["C03"];
    if after.records_count != before.records_count {
        ctx.violate(&p, "restart-records-count", "records_count changed across a clean restart", format!("before {} after {} damage={:?}", before.records_count, after.records_count, damage));
    }
    let had_empty_active = before.has_active && before.in_active == Some(0);
    let _ = had_empty_active;
    if after.next_blob_id < before.next_blob_id.saturating_sub(0) && after.next_blob_id <= ctx.world.inner.borrow().ids_seen.iter().next_back().copied().unwrap_or(0) {
        ctx.violate(&["C03", "C07"], "restart-next-id", "next_blob_id after reopen is not above every id ever present in the directory", format!("before {} after {} ids_seen={:?}", before.next_blob_id, after.next_blob_id, ctx.world.inner.borrow().ids_seen));
    }
}

pub async fn after_init<K>(_ctx: &Rc<RunCtx>, _storage: &Storage<K>, _si: usize)
where
    for<'a> K: Key<'a> + AsRef<K> + 'static,
{
}

pub async fn before_close<K>(ctx: &Rc<RunCtx>, storage: &Storage<K>, _si: usize)
where
    for<'a> K: Key<'a> + AsRef<K> + 'static,
{
    // which blob is active is only well-defined at a quiescent point (a rotation in flight may
    // replace the active blob while close() waits for the lock): settle for half of the closes
    ctx.active_at_close.set(None);
    *ctx.served_at_close.borrow_mut() = storage.records_count_detailed().await.iter().map(|x| x.0).collect();
    {
        let last = ctx.mismatch_keys_last.borrow();
        let same_records = last.1 == crate::queries::record_counts(ctx);
        *ctx.mismatch_before_close.borrow_mut() = if same_records && ctx.plan.faults.is_empty() { Some(last.0.clone()) } else { None };
    }
    let pick = crate::rng::mix_all(&[ctx.plan.sched.seed, 21, ctx.world.seq()]) % 2 == 0;
    if pick && !ctx.quiet_close.replace(false) && settle(ctx).await {
        let has = storage.has_active_blob().await;
        let id = if has { storage.records_count_detailed().await.last().map(|x| x.0) } else { None };
        ctx.active_at_close.set(id);
    }
}

/// C12c: after a successful close of the active blob no un-synced bytes of that blob remain.
pub fn after_close(ctx: &Rc<RunCtx>, _si: usize) {
    if !ctx.plan.faults.is_empty() {
        return;
    }
    let Some(active) = ctx.active_at_close.get() else { return };
    check_blob_clean(ctx, active, "unsynced-after-close", "blob bytes remain un-synced after a successful close of the active blob");
}

pub fn check_blob_clean(ctx: &Rc<RunCtx>, blob: usize, rule: &str, cause: &str) {
    let name = format!("{}.{}.blob", PREFIX, blob);
    let d = {
        let w = ctx.world.inner.borrow();
        match w.shadows.get(&name) {
            Some(sh) if !sh.quarantined && !sh.removed && sh.synced_len < sh.content.len() as u64 => Some(format!("{} synced {} of {}", name, sh.synced_len, sh.content.len())),
            _ => None,
        }
    };
    if let Some(d) = d {
        ctx.violate(&["C12"], rule, cause, d);
    }
}

/// C07b: every blob file still has exactly the bytes the storage appended to it (in the work
/// dir, or unchanged under the quarantine directory); nothing disappeared.
pub fn verify_files(ctx: &Rc<RunCtx>, when: &str) {
    let world = ctx.world.clone();
    let w = world.inner.borrow();
    let mut out: Vec<(String, String, String)> = Vec::new();
    for (name, sh) in w.shadows.iter() {
        if name.contains('/') {
            continue;
        }
        if let FileKind::Blob(_) = classify(name) {
            let p1 = ctx.dir.join(name);
            let p2 = ctx.dir.join(CORRUPTED).join(name);
            let (path, place) = if p1.is_file() { (p1, "work dir") } else if p2.is_file() { (p2, "quarantine") } else {
                out.push(("C07.blob-missing".into(), "a blob file disappeared from the work dir and the quarantine dir".into(), format!("{} {}", when, name)));
                continue;
            };
            let actual = std::fs::read(&path).unwrap_or_default();
            if actual != sh.content {
                let cause = if actual.len() < sh.content.len() {
                    "blob file is shorter than the bytes appended to it"
                } else if actual.len() >= sh.content.len() && actual[..sh.content.len()] == sh.content[..] {
                    "blob file grew outside the storage's write path"
                } else {
                    "blob file bytes differ from the bytes appended to it"
                };
                out.push(("C07.blob-modified".into(), cause.into(), format!("{} {} ({}) actual len {} expected len {}", when, name, place, actual.len(), sh.content.len())));
            }
        }
    }
    drop(w);
    for (rule, cause, detail) in out {
        ctx.violate(&["C07"], &rule, cause, detail);
    }
}

/// Whole-run oracles evaluated after the last session.
pub fn post_run(ctx: &Rc<RunCtx>) {
    let plan = ctx.plan.clone();
    // panics of any task
    let mut panics = PANICS.with(|p| p.borrow().clone());
    if ctx.aborted.get() {
        panics.pop(); // already reported as api-panic
    }
    for p in panics.iter() {
        let canonical: String = p.split(" @ ").next().unwrap_or("").chars().take(120).collect();
        let canonical = canonical.split("Reason").next().unwrap_or("").to_string();
        let short_cause = if canonical.contains("ObserverWorker unexpected error") {
            let kind = ["ActiveBlobDoesntExist", "ActiveBlobExists", "ActiveBlobNotSet", "Uninitialized", "WorkDirUnavailable", "FileUnavailable"].iter().find(|k| p.contains(**k)).copied().unwrap_or("other");
            format!("background worker panicked: ObserverWorker unexpected error ({})", kind)
        } else {
            format!("task panicked: {}", canonical)
        };
        let props: Vec<&str> = if plan.faults.is_empty() { vec!["C13"] } else { vec!["C13", "C11"] };
        ctx.violate(&props, "task-panic", short_cause, p.clone());
    }
    if needs_trace(&plan) {
        crate::c12::check_trace(ctx);
    }
    let _ = BTreeSet::<u8>::new();
}

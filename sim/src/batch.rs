//! Runs many seeded plans on all cores, collects violations and coverage, minimises failures,
//! writes replay files and the evidence file.

use crate::exec::{run_plan, RunOpts, RunOutcome};
use crate::plan::*;
use crate::rng::{hash_str, mix_all};
use crate::world::{Counters, Violation};
use serde_json::json;
use std::collections::{BTreeMap, HashSet};
use std::path::PathBuf;
use std::sync::atomic::{AtomicBool, AtomicU64, Ordering};
use std::sync::{Arc, Mutex};
use std::time::Instant;

pub struct ProfileSpec {
    pub name: &'static str,
    pub weight: u32,
}

pub struct CheckSpec {
    pub property: String,
    pub level: &'static str,
    pub profiles: Vec<ProfileSpec>,
    /// additional profiles of the thorough tier (full sweeps)
    pub thorough_extra: Vec<ProfileSpec>,
    pub quick_runs: u64,
    pub thorough_runs: u64,
    pub quick_budget_s: u64,
    pub thorough_budget_s: u64,
    /// human-readable rule for "non-trivial"
    pub nontrivial_rule: &'static str,
    pub nontrivial: fn(&Plan, &RunOutcome) -> bool,
    pub assumptions: Vec<&'static str>,
    /// probes that should not stay at zero
    pub expected_probes: Vec<&'static str>,
}

#[derive(Clone, Debug, serde::Serialize, serde::Deserialize)]
pub struct KnownFinding {
    pub property: String,
    pub rule: String,
    pub cause: String,
    pub status: String,
    pub text: String,
    #[serde(default)]
    pub commit: Option<String>,
}

pub fn verif_root() -> PathBuf {
    if let Ok(p) = std::env::var("VERIF_ROOT") {
        return PathBuf::from(p);
    }
    // binary lives in <root>/sim/target/release/
    let exe = std::env::current_exe().unwrap_or_else(|_| PathBuf::from("."));
    let mut p = exe.clone();
    for _ in 0..4 {
        p.pop();
    }
    if p.join("properties.jsonl").exists() {
        return p;
    }
    PathBuf::from("/verif")
}

pub fn load_known() -> Vec<KnownFinding> {
    let p = verif_root().join("known_findings.json");
    match std::fs::read_to_string(&p) {
        Ok(s) => serde_json::from_str(&s).unwrap_or_default(),
        Err(_) => vec![],
    }
}

pub fn relevant(v: &Violation, property: &str) -> bool {
    v.property.split(',').any(|p| p == property)
}

pub fn plan_seed(batch_seed: u64, property: &str, profile: &str, i: u64) -> u64 {
    mix_all(&[batch_seed, hash_str(property), hash_str(profile), i])
}

pub struct Found {
    pub plan: Plan,
    pub violation: Violation,
    pub index: u64,
}

pub struct BatchResult {
    pub runs: u64,
    pub distinct_sigs: u64,
    pub distinct_nontrivial: u64,
    pub distinct_states: u64,
    pub sim_ms: u64,
    pub events: u64,
    pub probes: Counters,
    pub fired: Counters,
    pub other_props: Counters,
    pub found: Vec<Found>,
    pub samples: Vec<serde_json::Value>,
    pub wall_s: f64,
    pub per_profile: BTreeMap<String, u64>,
}

pub fn profile_for(spec: &CheckSpec, i: u64) -> &'static str {
    profile_for_tier(spec, i, false)
}

pub fn profile_for_tier(spec: &CheckSpec, i: u64, thorough: bool) -> &'static str {
    let all: Vec<&ProfileSpec> = if thorough { spec.profiles.iter().chain(spec.thorough_extra.iter()).collect() } else { spec.profiles.iter().collect() };
    // development aid (never set by a registered command): restrict a batch to one of its profiles
    if let Ok(only) = std::env::var("SIM_ONLY_PROFILE") {
        if let Some(p) = all.iter().find(|p| p.name == only) {
            return p.name;
        }
    }
    let total: u64 = all.iter().map(|p| p.weight as u64).sum();
    let mut x = mix_all(&[i, 77]) % total.max(1);
    for p in all.iter() {
        if x < p.weight as u64 {
            return p.name;
        }
        x -= p.weight as u64;
    }
    spec.profiles[0].name
}

pub fn sample_of(plan: &Plan, out: &RunOutcome) -> serde_json::Value {
    let ops: Vec<String> = plan
        .sessions
        .iter()
        .enumerate()
        .flat_map(|(si, s)| s.clients.iter().enumerate().flat_map(move |(ci, c)| c.iter().take(12).map(move |o| format!("s{}c{} #{} {:?}", si, ci, o.uid, o.kind))))
        .take(30)
        .collect();
    json!({
        "seed": plan.seed,
        "profile": plan.profile,
        "store": plan.store,
        "sched": plan.sched,
        "sessions": plan.sessions.len(),
        "clients": plan.sessions.iter().map(|s| s.clients.len()).collect::<Vec<_>>(),
        "ops": ops,
        "faults": plan.faults,
        "faults_fired": out.fault_log,
        "events": out.events,
        "sim_ms": out.sim_ms,
        "trace_head": out.trace_sample,
    })
}

pub fn run_batch(spec: &CheckSpec, tier: &str, batch_seed: u64, workers: usize) -> BatchResult {
    let (max_runs, budget_s) = if tier == "thorough" { (spec.thorough_runs, spec.thorough_budget_s) } else { (spec.quick_runs, spec.quick_budget_s) };
    let budget_s = std::env::var("VERIF_BUDGET_S").ok().and_then(|s| s.parse().ok()).unwrap_or(budget_s);
    let max_runs = std::env::var("VERIF_RUNS").ok().and_then(|s| s.parse().ok()).unwrap_or(max_runs);
    let next = Arc::new(AtomicU64::new(0));
    let stop = Arc::new(AtomicBool::new(false));
    let start = Instant::now();
    struct Shared {
        sigs: HashSet<u64>,
        nontrivial_sigs: HashSet<u64>,
        states: HashSet<u64>,
        probes: Counters,
        fired: Counters,
        other: Counters,
        found: Vec<Found>,
        samples: Vec<serde_json::Value>,
        runs: u64,
        sim_ms: u64,
        events: u64,
        per_profile: BTreeMap<String, u64>,
    }
    let shared = Arc::new(Mutex::new(Shared {
        sigs: HashSet::new(),
        nontrivial_sigs: HashSet::new(),
        states: HashSet::new(),
        probes: Counters::default(),
        fired: Counters::default(),
        other: Counters::default(),
        found: vec![],
        samples: vec![],
        runs: 0,
        sim_ms: 0,
        events: 0,
        per_profile: BTreeMap::new(),
    }));
    std::thread::scope(|sc| {
        for _ in 0..workers {
            let next = next.clone();
            let stop = stop.clone();
            let shared = shared.clone();
            sc.spawn(move || {
                let opts = RunOpts::default();
                let mut local_sigs: Vec<(u64, bool, u64)> = Vec::new();
                let mut local_probes = Counters::default();
                let mut local_fired = Counters::default();
                let mut local_other = Counters::default();
                let mut local_runs = 0u64;
                let mut local_sim = 0u64;
                let mut local_events = 0u64;
                let mut local_profiles: BTreeMap<String, u64> = BTreeMap::new();
                loop {
                    if stop.load(Ordering::Relaxed) {
                        break;
                    }
                    let i = next.fetch_add(1, Ordering::Relaxed);
                    if i >= max_runs {
                        break;
                    }
                    if start.elapsed().as_secs() >= budget_s {
                        break;
                    }
                    let profile = profile_for_tier(spec, i, tier == "thorough");
                    let seed = plan_seed(batch_seed, &spec.property, profile, i);
                    let base_plan = crate::gen::gen_plan(&spec.property, profile, seed);
                    let base_out = run_plan(&base_plan, &opts);
                    // sweep profiles: the fault-free base run counts the fault sites, then one run per site
                    let mut work: Vec<(Plan, Option<RunOutcome>)> = vec![(base_plan.clone(), Some(base_out))];
                    if profile.contains("sweep") && (profile.starts_with("crash") || profile.starts_with("iofault") || profile.starts_with("cancel")) {
                        let subs = crate::gen2::expand_sweep(&base_plan, work[0].1.as_ref().unwrap(), tier == "thorough");
                        for sp in subs {
                            work.push((sp, None));
                        }
                    }
                    let mut first = true;
                    for (plan, pre_out) in work.into_iter() {
                        if start.elapsed().as_secs() >= budget_s + 20 {
                            break;
                        }
                        let out = match pre_out {
                            Some(o) => o,
                            None => run_plan(&plan, &opts),
                        };
                        local_runs += 1;
                        local_sim += out.sim_ms;
                        local_events += out.events;
                        *local_profiles.entry(profile.to_string()).or_insert(0) += 1;
                        local_probes.merge(&out.probes);
                        local_fired.merge(&out.fired);
                        let nt = (spec.nontrivial)(&plan, &out);
                        local_sigs.push((out.sig, nt, out.state_hash));
                        let mut rel: Vec<Violation> = Vec::new();
                        for v in out.violations.iter() {
                            if relevant(v, &spec.property) {
                                rel.push(v.clone());
                            } else {
                                local_other.bump(&format!("{}:{}", v.property, v.rule));
                            }
                        }
                        let want_sample = i < 3 && first;
                        first = false;
                        if !rel.is_empty() || want_sample {
                            let mut sh = shared.lock().unwrap();
                            if want_sample {
                                let opts2 = RunOpts { keep_trace: true, ..Default::default() };
                                drop(sh);
                                let out2 = run_plan(&plan, &opts2);
                                sh = shared.lock().unwrap();
                                sh.samples.push(sample_of(&plan, &out2));
                            }
                            // a sweep operation that failed is reported as the explicit single damage
                            let mut plan = plan.clone();
                            if let Some((uid, dmg)) = &out.sweep_hit {
                                for s in plan.sessions.iter_mut() {
                                    for c in s.clients.iter_mut() {
                                        for o in c.iter_mut() {
                                            if o.uid == *uid {
                                                if let OpKind::RestartSweep { lazy, .. } = o.kind {
                                                    o.kind = OpKind::Restart { lazy, damage: dmg.clone() };
                                                }
                                            }
                                        }
                                    }
                                }
                            }
                            for v in rel {
                                let dup = sh.found.iter().any(|f| f.violation.rule == v.rule && f.violation.cause == v.cause);
                                if !dup {
                                    sh.found.push(Found { plan: plan.clone(), violation: v, index: i });
                                } else if let Some(f) = sh.found.iter_mut().find(|f| f.violation.rule == v.rule && f.violation.cause == v.cause) {
                                    if plan.op_count() < f.plan.op_count() {
                                        f.plan = plan.clone();
                                        f.violation = v;
                                        f.index = i;
                                    }
                                }
                            }
                            if sh.found.len() >= 12 {
                                stop.store(true, Ordering::Relaxed);
                            }
                        }
                    }
                }
                let mut sh = shared.lock().unwrap();
                for (s, nt, st) in local_sigs {
                    sh.sigs.insert(s);
                    if nt {
                        sh.nontrivial_sigs.insert(s);
                    }
                    sh.states.insert(st);
                }
                sh.probes.merge(&local_probes);
                sh.fired.merge(&local_fired);
                sh.other.merge(&local_other);
                sh.runs += local_runs;
                sh.sim_ms += local_sim;
                sh.events += local_events;
                for (k, v) in local_profiles {
                    *sh.per_profile.entry(k).or_insert(0) += v;
                }
            });
        }
    });
    let sh = Arc::try_unwrap(shared).ok().expect("workers done").into_inner().unwrap();
    let mut found = sh.found;
    found.sort_by_key(|f| f.index);
    BatchResult {
        runs: sh.runs,
        distinct_sigs: sh.sigs.len() as u64,
        distinct_nontrivial: sh.nontrivial_sigs.len() as u64,
        distinct_states: sh.states.len() as u64,
        sim_ms: sh.sim_ms,
        events: sh.events,
        probes: sh.probes,
        fired: sh.fired,
        other_props: sh.other,
        found,
        samples: sh.samples,
        wall_s: start.elapsed().as_secs_f64(),
        per_profile: sh.per_profile,
    }
}

pub fn write_replay(plan: &Plan, v: &Violation, property: &str) -> PathBuf {
    let dir = verif_root().join("replays");
    let _ = std::fs::create_dir_all(&dir);
    let mut p = plan.clone();
    p.property = property.to_string();
    p.expect = Some(Expected { property: property.to_string(), rule: v.rule.clone(), cause: v.cause.clone() });
    let path = dir.join(format!("{}-{}-{:016x}.json", property, v.rule.replace(|c: char| !c.is_alphanumeric(), "_"), plan.seed));
    std::fs::write(&path, serde_json::to_string_pretty(&p).unwrap()).expect("write replay");
    path
}

/// Run the whole check for one property; returns the process exit code.
pub fn run_check(spec: &CheckSpec, tier: &str, batch_seed: u64) -> i32 {
    let workers = std::env::var("VERIF_WORKERS").ok().and_then(|s| s.parse().ok()).unwrap_or_else(|| std::thread::available_parallelism().map(|n| n.get()).unwrap_or(4));
    println!("VERIF_SEED={} property={} tier={} workers={}", batch_seed, spec.property, tier, workers);
    let res = run_batch(spec, tier, batch_seed, workers);
    let known = load_known();
    let mut exit = 0;
    let mut known_seen: Vec<String> = Vec::new();
    let mut new_violations = 0;
    let mut violation_lines: Vec<serde_json::Value> = Vec::new();
    for f in res.found.iter() {
        let v = &f.violation;
        let is_known = known.iter().find(|k| k.status == "known" && k.property == spec.property && k.rule == v.rule && k.cause == v.cause);
        if let Some(k) = is_known {
            let line = format!("KNOWN-FINDING: property={} {} [rule={} cause={}]", spec.property, k.text, v.rule, v.cause);
            if !known_seen.contains(&line) {
                println!("{}", line);
                known_seen.push(line);
            }
            continue;
        }
        // minimise, verify the replay in-process, write the replay file
        let (min_plan, min_v) = crate::minimize::minimize(&f.plan, v, &spec.property);
        let path = write_replay(&min_plan, &min_v, &spec.property);
        println!("VIOLATION property={} replay={}", spec.property, path.display());
        println!("  rule={} cause={}", min_v.rule, min_v.cause);
        println!("  detail={}", min_v.detail);
        println!("  seed={} profile={} ops={} (before minimisation {})", f.plan.seed, f.plan.profile, min_plan.op_count(), f.plan.op_count());
        violation_lines.push(json!({"rule": min_v.rule, "cause": min_v.cause, "detail": min_v.detail, "replay": path.display().to_string(), "seed": f.plan.seed}));
        new_violations += 1;
        exit = 1;
    }
    for (k, n) in res.other_props.map.iter() {
        println!("NOTE: while checking {} another property's rule fired {} time(s): {} (reported by that property's own check)", spec.property, n, k);
    }
    for p in spec.expected_probes.iter() {
        if res.probes.get(p) == 0 && res.fired.get(p) == 0 {
            println!("WARNING: probe '{}' stayed at zero in this run", p);
        }
    }
    let runs_per_hour = if res.wall_s > 0.0 { (res.runs as f64 / res.wall_s * 3600.0) as u64 } else { 0 };
    let evidence = json!({
        "property_id": spec.property,
        "tier": tier,
        "seed": batch_seed,
        "level": spec.level,
        "coverage": {
            "evaluations": res.runs,
            "distinct_nontrivial": res.distinct_nontrivial,
            "rule": spec.nontrivial_rule,
            "samples": res.samples,
            "distinct_event_signatures": res.distinct_sigs,
            "distinct_model_states": res.distinct_states,
            "runs_per_hour": runs_per_hour,
            "sim_time_s": res.sim_ms / 1000,
            "io_events": res.events,
            "faults_fired": res.fired.map,
            "probes": res.probes.map,
            "runs_per_profile": res.per_profile,
            "other_property_rules_fired": res.other_props.map,
            "known_findings_seen": known_seen,
            "new_violations": violation_lines,
            "components": {
                "real": ["pearl Storage/Blob/Index/B+tree/filters/observer worker (unmodified logic)", "tokio current-thread scheduler, timers, mpsc, RwLock, Semaphore", "async-lock", "bincode", "crc", "kernel tmpfs file semantics incl. O_APPEND+pwrite"],
                "stub": ["blocking pool (simulated jobs with seeded latency)", "in-place vs pool decision (mode flag)", "tokio clock (paused, auto-advance) and wall clock (simulated)", "I/O results (fault plan)", "crash / power loss (runtime teardown + image rebuild)", "observer channel capacity when the knob is used"]
            },
            "exhaustive": false
        },
        "assumptions": spec.assumptions,
        "wall_s": res.wall_s,
        "violations": new_violations,
    });
    let evdir = verif_root().join("evidence");
    let _ = std::fs::create_dir_all(&evdir);
    let evpath = evdir.join(format!("{}.json", spec.property));
    std::fs::write(&evpath, serde_json::to_string_pretty(&evidence).unwrap()).expect("write evidence");
    println!(
        "{}: runs={} distinct_signatures={} distinct_nontrivial={} sim_time={}s io_events={} wall={:.1}s ({} runs/h) violations={} known_findings={}",
        spec.property,
        res.runs,
        res.distinct_sigs,
        res.distinct_nontrivial,
        res.sim_ms / 1000,
        res.events,
        res.wall_s,
        runs_per_hour,
        new_violations,
        known_seen.len()
    );
    if res.runs == 0 || res.distinct_nontrivial < 2 {
        eprintln!("harness error: too few runs ({}) or non-trivial cases ({})", res.runs, res.distinct_nontrivial);
        if exit == 0 {
            return 2;
        }
    }
    exit
}

//! Delta debugging over the explicit plan: drop sessions' operations, clients, faults; then
//! simplify (latencies to zero, buggify off, knobs to shipped defaults, smaller values).
//! A candidate is accepted only if a violation with the same (property, rule, cause) persists.

use crate::exec::{run_plan, RunOpts};
use crate::plan::*;
use crate::world::Violation;

fn same(v: &Violation, want: &Violation, property: &str) -> bool {
    v.rule == want.rule && v.cause == want.cause && v.property.split(',').any(|p| p == property)
}

fn fails(plan: &Plan, want: &Violation, property: &str) -> Option<Violation> {
    let out = run_plan(plan, &RunOpts::default());
    out.violations.into_iter().find(|v| same(v, want, property))
}

pub fn minimize(plan: &Plan, want: &Violation, property: &str) -> (Plan, Violation) {
    let budget = std::time::Instant::now();
    let limit_s = 60;
    let mut best = plan.clone();
    let mut best_v = match fails(&best, want, property) {
        Some(v) => v,
        None => return (plan.clone(), want.clone()), // not reproducible in-process: report as is
    };
    // 1. drop chunks of operations per client list (ddmin style)
    let mut progress = true;
    while progress && budget.elapsed().as_secs() < limit_s {
        progress = false;
        for si in 0..best.sessions.len() {
            for ci in 0..best.sessions[si].clients.len() {
                let mut chunk = (best.sessions[si].clients[ci].len() / 2).max(1);
                loop {
                    let mut start = 0;
                    while start < best.sessions[si].clients[ci].len() {
                        if budget.elapsed().as_secs() >= limit_s {
                            break;
                        }
                        let mut cand = best.clone();
                        let end = (start + chunk).min(cand.sessions[si].clients[ci].len());
                        cand.sessions[si].clients[ci].drain(start..end);
                        if let Some(v) = fails(&cand, want, property) {
                            best = cand;
                            best_v = v;
                            progress = true;
                        } else {
                            start += chunk;
                        }
                    }
                    if chunk == 1 {
                        break;
                    }
                    chunk = (chunk / 2).max(1);
                }
            }
        }
        // drop empty clients (keep at least one list per session)
        for si in 0..best.sessions.len() {
            let mut ci = 0;
            while best.sessions[si].clients.len() > 1 && ci < best.sessions[si].clients.len() {
                if best.sessions[si].clients[ci].is_empty() {
                    let mut cand = best.clone();
                    cand.sessions[si].clients.remove(ci);
                    if cand.sessions[si].clients.len() >= 2 || best.sessions[si].clients.len() == 2 && false {
                        if let Some(v) = fails(&cand, want, property) {
                            best = cand;
                            best_v = v;
                            continue;
                        }
                    }
                }
                ci += 1;
            }
        }
        // drop faults
        let mut fi = 0;
        while fi < best.faults.len() {
            let mut cand = best.clone();
            cand.faults.remove(fi);
            if let Some(v) = fails(&cand, want, property) {
                best = cand;
                best_v = v;
                progress = true;
            } else {
                fi += 1;
            }
        }
        // drop trailing sessions
        while best.sessions.len() > 1 {
            let mut cand = best.clone();
            cand.sessions.pop();
            let n = cand.sessions.len();
            cand.faults.retain(|f| f.session < n);
            if let Some(v) = fails(&cand, want, property) {
                best = cand;
                best_v = v;
                progress = true;
            } else {
                break;
            }
        }
    }
    // 2. simplifications
    let simplifications: Vec<Box<dyn Fn(&mut Plan)>> = vec![
        Box::new(|p| p.sched.latency = Latency::Zero),
        Box::new(|p| p.sched.buggify_mask = 0),
        Box::new(|p| p.sched.channel_cap = 1024),
        Box::new(|p| p.sched.inplace_small = false),
        Box::new(|p| {
            for s in p.sessions.iter_mut() {
                for c in s.clients.iter_mut() {
                    for o in c.iter_mut() {
                        o.think_ms = 0;
                    }
                }
            }
        }),
        Box::new(|p| {
            for s in p.sessions.iter_mut() {
                for c in s.clients.iter_mut() {
                    for o in c.iter_mut() {
                        if let OpKind::Write { len, .. } = &mut o.kind {
                            if *len > 16 {
                                *len = 16;
                            }
                        }
                    }
                }
            }
        }),
        Box::new(|p| p.store.bloom = StoreCfg::default().bloom),
        Box::new(|p| p.store.group_size = 8),
        Box::new(|p| p.store.max_dirty = 32 << 20),
        Box::new(|p| {
            p.store.deferred_min_ms = 60_000;
            p.store.deferred_max_ms = 180_000;
        }),
        Box::new(|p| p.store.key_len = 8),
        Box::new(|p| p.store.max_blob_size = 1_000_000),
    ];
    for s in simplifications.iter() {
        if budget.elapsed().as_secs() >= limit_s {
            break;
        }
        let mut cand = best.clone();
        s(&mut cand);
        if cand == best {
            continue;
        }
        if let Some(v) = fails(&cand, want, property) {
            best = cand;
            best_v = v;
        }
    }
    (best, best_v)
}

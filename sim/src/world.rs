//! The simulated world: implementation of pearl's `SimHooks`. Owns the scheduler decisions
//! (latency of every blocking job, buggify yields), both clocks, the I/O tap (trace, shadow copy
//! of every file, physical record list derived from the writes), the fault plan and the
//! always-on monitors (append-only, id reuse, sync discipline inputs).

use crate::plan::*;
use crate::rng::{hash_str, mix, mix_all};
use pearl::verif::{SimHooks, WriteDecision};
use std::cell::{Cell, RefCell};
use std::collections::{BTreeMap, BTreeSet, HashMap};
use std::path::{Path, PathBuf};
use std::rc::Rc;
use std::time::{Duration, SystemTime, UNIX_EPOCH};

pub const BUGGIFY_SITES: [&str; 7] = [
    "write.after_dup_check",
    "delete.between_locks",
    "write.before_update_msg",
    "dump.per_blob",
    "worker.between_locks",
    "lock.storage",
    "lock.blob",
];

pub const EIO: i32 = 5;
pub const ENOSPC: i32 = 28;
pub const BLOB_HEADER_LEN: usize = 20;
pub const RECORD_MAGIC: u64 = 0xacdc_bcde;
pub const BLOB_MAGIC: u64 = 0xdeaf_abcd;

const CRC32C: crc::Crc<u32> = crc::Crc::<u32>::new(&crc::CRC_32_ISCSI);
pub fn crc32c(b: &[u8]) -> u32 {
    CRC32C.checksum(b)
}

#[derive(Clone, Copy, Debug, PartialEq, Eq, Hash, PartialOrd, Ord)]
pub struct Tag {
    pub client: u32,
    pub uid: u32,
}

#[derive(Clone, Copy, Debug, PartialEq, Eq, Hash, PartialOrd, Ord)]
pub enum FileKind {
    Blob(usize),
    Index(usize),
    Other,
}

pub fn classify(name: &str) -> FileKind {
    let base = name.rsplit('/').next().unwrap_or(name);
    let parts: Vec<&str> = base.split('.').collect();
    if parts.len() == 3 {
        if let Ok(id) = parts[1].parse::<usize>() {
            return match parts[2] {
                "blob" => FileKind::Blob(id),
                "index" => FileKind::Index(id),
                _ => FileKind::Other,
            };
        }
    }
    FileKind::Other
}

#[derive(Clone, Debug)]
pub struct Violation {
    pub property: String,
    pub rule: String,
    /// canonical cause string (stable across seeds hitting the same defect)
    pub cause: String,
    pub detail: String,
    pub event_seq: u64,
}

impl Violation {
    pub fn new(property: &str, rule: &str, cause: impl Into<String>, detail: impl Into<String>) -> Self {
        Violation { property: property.into(), rule: rule.into(), cause: cause.into(), detail: detail.into(), event_seq: 0 }
    }
}

#[derive(Clone, Debug, PartialEq)]
pub struct PhysRec {
    pub blob: usize,
    pub offset: u64,
    pub key: Vec<u8>,
    pub ts: u64,
    pub deleted: bool,
    pub meta_size: u64,
    pub data_size: u64,
    pub meta_raw: Vec<u8>,
    pub data: Vec<u8>,
    pub data_crc_field: u32,
    pub header_crc_ok: bool,
    pub blob_offset_field: u64,
    /// every byte of the record reached the file
    pub complete: bool,
    pub bytes_written: u64,
    pub total_len: u64,
    pub seq: u64,
    pub done_seq: u64,
    pub tag: Option<Tag>,
}

impl PhysRec {
    pub fn meta_map(&self) -> Option<BTreeMap<String, Vec<u8>>> {
        parse_meta(&self.meta_raw)
    }
    pub fn data_ok(&self) -> bool {
        self.complete && crc32c(&self.data) == self.data_crc_field
    }
}

pub fn parse_meta(raw: &[u8]) -> Option<BTreeMap<String, Vec<u8>>> {
    let mut m = BTreeMap::new();
    let mut p = 0usize;
    let rd = |p: &mut usize| -> Option<u64> {
        if *p + 8 > raw.len() {
            return None;
        }
        let v = u64::from_le_bytes(raw[*p..*p + 8].try_into().ok()?);
        *p += 8;
        Some(v)
    };
    let n = rd(&mut p)?;
    for _ in 0..n {
        let kl = rd(&mut p)? as usize;
        if p + kl > raw.len() {
            return None;
        }
        let k = String::from_utf8(raw[p..p + kl].to_vec()).ok()?;
        p += kl;
        let vl = rd(&mut p)? as usize;
        if p + vl > raw.len() {
            return None;
        }
        let v = raw[p..p + vl].to_vec();
        p += vl;
        m.insert(k, v);
    }
    if p != raw.len() {
        return None;
    }
    Some(m)
}

/// Parsed record header (harness's own parser of pearl's bincode layout).
#[derive(Clone, Debug)]
pub struct RawHeader {
    pub key: Vec<u8>,
    pub meta_size: u64,
    pub data_size: u64,
    pub flags: u8,
    pub blob_offset: u64,
    pub timestamp: u64,
    pub data_checksum: u32,
    pub header_checksum: u32,
    pub len: usize,
    pub crc_ok: bool,
}

pub fn record_header_len(key_len: usize) -> usize {
    8 + 8 + key_len + 8 + 8 + 1 + 8 + 8 + 4 + 4
}

/// Parse a record header at the start of `buf`; `None` if it does not look like one.
pub fn parse_record_header(buf: &[u8], key_len: usize) -> Option<RawHeader> {
    let hl = record_header_len(key_len);
    if buf.len() < hl {
        return None;
    }
    let u64at = |p: usize| u64::from_le_bytes(buf[p..p + 8].try_into().unwrap());
    let u32at = |p: usize| u32::from_le_bytes(buf[p..p + 4].try_into().unwrap());
    if u64at(0) != RECORD_MAGIC {
        return None;
    }
    if u64at(8) != key_len as u64 {
        return None;
    }
    let mut p = 16;
    let key = buf[p..p + key_len].to_vec();
    p += key_len;
    let meta_size = u64at(p);
    p += 8;
    let data_size = u64at(p);
    p += 8;
    let flags = buf[p];
    p += 1;
    let blob_offset = u64at(p);
    p += 8;
    let timestamp = u64at(p);
    p += 8;
    let data_checksum = u32at(p);
    p += 4;
    let header_checksum = u32at(p);
    p += 4;
    debug_assert_eq!(p, hl);
    let mut tmp = buf[..hl].to_vec();
    tmp[hl - 4..hl].copy_from_slice(&[0, 0, 0, 0]);
    let crc_ok = crc32c(&tmp) == header_checksum;
    Some(RawHeader { key, meta_size, data_size, flags, blob_offset, timestamp, data_checksum, header_checksum, len: hl, crc_ok })
}

#[derive(Clone, Debug, Default)]
pub struct Shadow {
    pub content: Vec<u8>,
    pub synced_len: u64,
    pub syncs: u32,
    pub durable: Vec<u8>,
    pub pending: Vec<(u64, Vec<u8>)>,
    pub created_ms: u64,
    pub quarantined: bool,
    /// removed from the work dir by the storage (index of a quarantined blob) or by the harness
    pub removed: bool,
    /// the last write on this file (event seq), for "most recently written" choices
    pub last_write_seq: u64,
    /// index of a record whose data part is still to be written: (rec index in phys[blob], offset, len)
    pub awaiting_data: Vec<(usize, u64, u64)>,
    /// bytes reserved by failed writes (holes) exist
    pub has_holes: bool,
    /// event seq of the first record write acknowledged (C12a) / first sync
    pub first_sync_seq: Option<u64>,
    pub created_session: usize,
    /// the storage holds this file through an O_APPEND descriptor (IoDriver::open): the kernel
    /// ignores the offset of positional writes and appends at the end of file
    pub append_mode: bool,
    /// ranges below the end of the file that no write has covered yet (a later reservation was
    /// written before an earlier one): filling them modifies no stored byte
    pub gaps: Vec<(u64, u64)>,
}

#[derive(Clone, Debug)]
pub struct TraceEvent {
    pub seq: u64,
    pub t_ms: u64,
    pub kind: &'static str,
    pub file: String,
    pub offset: u64,
    pub len: u64,
    /// 0 ok, >0 errno, <0: short write keeping -res-1 bytes
    pub res: i64,
    pub tag: Option<Tag>,
    pub session: usize,
}

#[derive(Default, Clone, Debug)]
pub struct Counters {
    pub map: BTreeMap<String, u64>,
}
impl Counters {
    pub fn bump(&mut self, k: &str) {
        *self.map.entry(k.to_string()).or_insert(0) += 1;
    }
    pub fn add(&mut self, k: &str, n: u64) {
        *self.map.entry(k.to_string()).or_insert(0) += n;
    }
    pub fn merge(&mut self, o: &Counters) {
        for (k, v) in &o.map {
            *self.map.entry(k.clone()).or_insert(0) += v;
        }
    }
    pub fn get(&self, k: &str) -> u64 {
        self.map.get(k).copied().unwrap_or(0)
    }
}

pub struct Inner {
    pub work_dir: PathBuf,
    pub key_len: usize,
    pub sched: SchedCfg,
    pub track_durable: bool,
    // clocks
    pub base_ms: u64,
    pub session_start: Option<tokio::time::Instant>,
    /// last simulated time observed inside the session's runtime
    pub last_ms: Cell<u64>,
    pub skew_ms: i64,
    // tap
    pub trace: Vec<TraceEvent>,
    pub keep_trace: bool,
    pub seq: u64,
    pub mut_seq: u64,
    pub sig: u64,
    pub reads: u64,
    pub shadows: BTreeMap<String, Shadow>,
    pub phys: BTreeMap<usize, Vec<PhysRec>>,
    pub ids_seen: BTreeSet<usize>,
    pub session: usize,
    // faults
    pub faults: Vec<(FaultSpec, bool)>,
    pub nth_counts: HashMap<(IoKind, PathClass), u64>,
    pub op_read_counts: HashMap<PathClass, u64>,
    pub dead: bool,
    pub killed_at: Option<u64>,
    pub fired: Counters,
    pub last_fault_seq: Option<u64>,
    pub last_fault_tag: Option<Tag>,
    pub fault_log: Vec<String>,
    // scheduling
    pub cur_tag: Option<Tag>,
    pub op_job_idx: u64,
    pub bg_job_idx: u64,
    pub next_job: u64,
    pub jobs: HashMap<u64, Option<Tag>>,
    pub running_jobs: Vec<u64>,
    pub jobs_in_flight: u64,
    pub buggify_ctr: u64,
    /// the blob file synced last by each operation (client, uid)
    pub blob_sync_by_op: BTreeMap<(u32, u32), usize>,
    pub stall_job: Option<(u64, u64)>,
    // outputs
    pub violations: Vec<Violation>,
    pub probes: Counters,
    pub query_phase: bool,
}

pub struct World {
    pub inner: RefCell<Inner>,
    pub kill_flag: Cell<bool>,
    /// set by the busy-wait detector: tasks spin without any progress
    pub hung_flag: Cell<bool>,
    pub kill_notify: Rc<tokio::sync::Notify>,
}

fn class_of(kind: FileKind) -> PathClass {
    match kind {
        FileKind::Blob(_) => PathClass::Blob,
        FileKind::Index(_) => PathClass::Index,
        FileKind::Other => PathClass::Any,
    }
}

impl World {
    pub fn new(work_dir: PathBuf, key_len: usize, sched: SchedCfg, track_durable: bool, keep_trace: bool) -> Rc<World> {
        Rc::new(World {
            inner: RefCell::new(Inner {
                work_dir,
                key_len,
                sched,
                track_durable,
                base_ms: 0,
                session_start: None,
                last_ms: Cell::new(0),
                skew_ms: 0,
                trace: Vec::new(),
                keep_trace,
                seq: 0,
                mut_seq: 0,
                sig: 0x5151_5151,
                reads: 0,
                shadows: BTreeMap::new(),
                phys: BTreeMap::new(),
                ids_seen: BTreeSet::new(),
                session: 0,
                faults: Vec::new(),
                nth_counts: HashMap::new(),
                op_read_counts: HashMap::new(),
                dead: false,
                killed_at: None,
                fired: Counters::default(),
                last_fault_seq: None,
                last_fault_tag: None,
                fault_log: Vec::new(),
                cur_tag: None,
                op_job_idx: 0,
                bg_job_idx: 0,
                next_job: 1,
                jobs: HashMap::new(),
                running_jobs: Vec::new(),
                jobs_in_flight: 0,
                buggify_ctr: 0,
                blob_sync_by_op: BTreeMap::new(),
                stall_job: None,
                violations: Vec::new(),
                probes: Counters::default(),
                query_phase: false,
            }),
            kill_flag: Cell::new(false),
            hung_flag: Cell::new(false),
            kill_notify: Rc::new(tokio::sync::Notify::new()),
        })
    }

    pub fn install(self: &Rc<Self>) {
        pearl::verif::install(self.clone());
    }

    pub fn uninstall() {
        pearl::verif::uninstall();
    }

    // ---------------------------------------------------------------- sessions and clocks

    /// Must be called from inside the session's runtime.
    pub fn begin_session(&self, idx: usize, faults: &[FaultSpec]) {
        let mut w = self.inner.borrow_mut();
        w.session = idx;
        w.session_start = Some(tokio::time::Instant::now());
        w.dead = false;
        w.killed_at = None;
        w.mut_seq = 0;
        w.nth_counts.clear();
        w.op_read_counts.clear();
        w.faults = faults.iter().filter(|f| f.session == idx).map(|f| (f.clone(), false)).collect();
        w.jobs.clear();
        w.running_jobs.clear();
        w.jobs_in_flight = 0;
        w.cur_tag = None;
        self.kill_flag.set(false);
        self.hung_flag.set(false);
    }

    pub fn end_session(&self) {
        let mut w = self.inner.borrow_mut();
        // the runtime (and its clock) is gone by now: use the last time observed inside it
        let now = w.last_ms.get().max(w.base_ms);
        w.base_ms = now + 1000; // a restart takes a second of simulated wall time
        w.session_start = None;
        w.cur_tag = None;
        w.faults.clear();
    }

    pub fn sim_ms(&self) -> u64 {
        self.inner.borrow().sim_ms()
    }

    pub fn set_tag(&self, tag: Option<Tag>) {
        let mut w = self.inner.borrow_mut();
        w.cur_tag = tag;
        w.op_job_idx = 0;
    }

    /// restore the tag when a tagged future is polled again (does not reset the job counter)
    pub fn resume_tag(&self, tag: Option<Tag>) {
        self.inner.borrow_mut().cur_tag = tag;
    }

    pub fn jump_clock(&self, ms: i64) {
        self.inner.borrow_mut().skew_ms += ms;
    }

    pub fn is_dead(&self) -> bool {
        self.inner.borrow().dead
    }

    pub fn probe(&self, name: &str) {
        self.inner.borrow_mut().probes.bump(name);
    }

    pub fn violation(&self, mut v: Violation) {
        let mut w = self.inner.borrow_mut();
        v.event_seq = w.seq;
        w.violations.push(v);
    }

    pub fn seq(&self) -> u64 {
        self.inner.borrow().seq
    }

    /// A stamp for invoke/return events of client operations.
    pub fn stamp(&self) -> u64 {
        let mut w = self.inner.borrow_mut();
        w.seq += 1;
        w.seq
    }

    pub fn set_query_phase(&self, on: bool) {
        self.inner.borrow_mut().query_phase = on;
    }

    // ---------------------------------------------------------------- file state maintenance

    /// Learn about files that exist on disk but are unknown (first session on a prepared dir) and
    /// notice files that the storage moved to the quarantine directory or removed.
    pub fn reconcile_dir(&self, corrupted_dir: &str) {
        let mut w = self.inner.borrow_mut();
        let wd = w.work_dir.clone();
        let mut present: BTreeSet<String> = BTreeSet::new();
        if let Ok(rd) = std::fs::read_dir(&wd) {
            for e in rd.flatten() {
                let p = e.path();
                if p.is_file() {
                    present.insert(e.file_name().to_string_lossy().to_string());
                }
            }
        }
        let mut in_corrupted: BTreeSet<String> = BTreeSet::new();
        if let Ok(rd) = std::fs::read_dir(wd.join(corrupted_dir)) {
            for e in rd.flatten() {
                if e.path().is_file() {
                    in_corrupted.insert(e.file_name().to_string_lossy().to_string());
                }
            }
        }
        for name in present.iter() {
            if !w.shadows.contains_key(name) {
                let content = std::fs::read(wd.join(name)).unwrap_or_default();
                let now = w.sim_ms();
                let sh = Shadow { synced_len: content.len() as u64, durable: content.clone(), content, created_ms: now, ..Default::default() };
                if let FileKind::Blob(id) = classify(name) {
                    w.ids_seen.insert(id);
                }
                w.shadows.insert(name.clone(), sh);
            }
        }
        let names: Vec<String> = w.shadows.keys().cloned().collect();
        for name in names {
            let in_wd = present.contains(&name);
            let in_c = in_corrupted.contains(&name);
            let kind = classify(&name);
            let sh = w.shadows.get_mut(&name).unwrap();
            if !in_wd && in_c {
                if !sh.quarantined {
                    sh.quarantined = true;
                }
            } else if !in_wd && !in_c {
                sh.removed = true;
            } else if in_wd {
                sh.removed = false;
            }
            let _ = kind;
        }
    }

    /// Harness-side modification of a file at rest (damage injection, crash image): keeps the shadow coherent.
    pub fn set_file_content(&self, name: &str, content: Option<Vec<u8>>) {
        let mut w = self.inner.borrow_mut();
        let path = w.work_dir.join(name);
        match content {
            Some(c) => {
                std::fs::write(&path, &c).expect("harness write");
                let now = w.sim_ms();
                let sh = w.shadows.entry(name.to_string()).or_insert_with(|| Shadow { created_ms: now, ..Default::default() });
                sh.content = c.clone();
                sh.durable = c;
                sh.synced_len = sh.content.len() as u64;
                sh.pending.clear();
                sh.removed = false;
                sh.awaiting_data.clear();
                sh.gaps.clear();
            }
            None => {
                let _ = std::fs::remove_file(&path);
                if let Some(sh) = w.shadows.get_mut(name) {
                    sh.removed = true;
                }
            }
        }
    }

    /// Replace the physical record list of a blob by a fresh sequential parse of the given bytes
    /// (after a harness-side truncation / crash image).
    pub fn reparse_blob(&self, blob: usize, content: &[u8]) {
        let mut w = self.inner.borrow_mut();
        let key_len = w.key_len;
        let old = w.phys.remove(&blob).unwrap_or_default();
        let mut recs = Vec::new();
        let mut p = BLOB_HEADER_LEN;
        while p < content.len() {
            let Some(h) = parse_record_header(&content[p..], key_len) else { break };
            if !h.crc_ok {
                break;
            }
            let total = h.len as u64 + h.meta_size + h.data_size;
            let avail = (content.len() - p) as u64;
            let complete = avail >= total;
            let ms = h.len;
            let me = (ms as u64 + h.meta_size).min(avail) as usize;
            let de = (total).min(avail) as usize;
            let prev = old.iter().find(|r| r.offset == p as u64);
            recs.push(PhysRec {
                blob,
                offset: p as u64,
                key: h.key.clone(),
                ts: h.timestamp,
                deleted: h.flags & 1 == 1,
                meta_size: h.meta_size,
                data_size: h.data_size,
                meta_raw: content[p + ms.min(avail as usize)..p + me].to_vec(),
                data: if de > me { content[p + me..p + de].to_vec() } else { vec![] },
                data_crc_field: h.data_checksum,
                header_crc_ok: h.crc_ok,
                blob_offset_field: h.blob_offset,
                complete,
                bytes_written: avail.min(total),
                total_len: total,
                seq: prev.map(|r| r.seq).unwrap_or(0),
                done_seq: prev.map(|r| r.done_seq).unwrap_or(0),
                tag: prev.and_then(|r| r.tag),
            });
            if !complete {
                break;
            }
            p += total as usize;
        }
        w.phys.insert(blob, recs);
    }
}

impl Inner {
    pub fn sim_ms(&self) -> u64 {
        match self.session_start {
            Some(s) => {
                let v = self.base_ms + (tokio::time::Instant::now() - s).as_millis() as u64;
                self.last_ms.set(v.max(self.last_ms.get()));
                v
            }
            None => self.base_ms,
        }
    }

    pub fn is_foreign(&self, path: &Path) -> bool {
        !path.starts_with(&self.work_dir)
    }

    pub fn rel(&self, path: &Path) -> String {
        path.strip_prefix(&self.work_dir).map(|p| p.to_string_lossy().to_string()).unwrap_or_else(|_| path.to_string_lossy().to_string())
    }

    /// a mutation is attributed to one of the checker's own query operations
    fn query_violation(&self) -> bool {
        self.query_phase && self.eff_tag().map(|t| t.client == u32::MAX).unwrap_or(false)
    }

    pub fn eff_tag(&self) -> Option<Tag> {
        if let Some(j) = self.running_jobs.last() {
            return self.jobs.get(j).copied().flatten();
        }
        self.cur_tag
    }

    fn push_event(&mut self, kind: &'static str, file: &str, offset: u64, len: u64, res: i64) -> u64 {
        self.seq += 1;
        let seq = self.seq;
        self.sig = mix(self.sig ^ mix_all(&[hash_str(kind), hash_str(file), offset, len, res as u64]));
        if self.keep_trace {
            let t_ms = self.sim_ms();
            let tag = self.eff_tag();
            let session = self.session;
            self.trace.push(TraceEvent { seq, t_ms, kind, file: file.to_string(), offset, len, res, tag, session });
        }
        seq
    }

    /// Look up the fault (if any) for a mutating op; consumes it.
    fn fault_for(&mut self, kind: IoKind, class: PathClass) -> Option<FaultAction> {
        let g = self.mut_seq;
        self.mut_seq += 1;
        let n_specific = {
            let c = self.nth_counts.entry((kind, class)).or_insert(0);
            let v = *c;
            *c += 1;
            v
        };
        let n_any = {
            let c = self.nth_counts.entry((kind, PathClass::Any)).or_insert(0);
            let v = *c;
            *c += 1;
            v
        };
        for (f, used) in self.faults.iter_mut() {
            if *used {
                continue;
            }
            let hit = match &f.sel {
                Sel::Global { n } => *n == g,
                Sel::Nth { kind: k, class: c, n } => *k == kind && ((*c == class && *n == n_specific) || (*c == PathClass::Any && class != PathClass::Any && *n == n_any) || (*c == PathClass::Any && class == PathClass::Any && *n == n_specific)),
                Sel::NthOpRead { .. } => false,
            };
            if hit {
                *used = true;
                return Some(f.action.clone());
            }
        }
        None
    }

    fn note_fault(&mut self, what: &str, file: &str) {
        self.fired.bump(what);
        self.last_fault_seq = Some(self.seq);
        self.last_fault_tag = self.eff_tag();
        let s = format!("{}@{} seq={} tag={:?}", what, file, self.seq, self.eff_tag());
        self.fault_log.push(s);
    }

    fn apply_blob_write(&mut self, name: &str, blob: usize, offset: u64, data: &[u8], kept: usize, seq: u64) {
        let key_len = self.key_len;
        let tag = self.eff_tag();
        // continuation (data part of a two-buffer record)?
        // (several records can be half-written at a time when closures of a cancelled and of a later operation overlap)
        let awaiting = self.shadows.get(name).and_then(|s| s.awaiting_data.iter().copied().find(|&(_, o, l)| o == offset && l == data.len() as u64));
        if let Some((idx, exp_off, exp_len)) = awaiting {
            if exp_off == offset && exp_len == data.len() as u64 {
                if let Some(recs) = self.phys.get_mut(&blob) {
                    if let Some(r) = recs.get_mut(idx) {
                        r.data = data[..kept].to_vec();
                        r.bytes_written += kept as u64;
                        if kept == data.len() {
                            r.complete = true;
                            r.done_seq = seq;
                        }
                    }
                }
                if let Some(s) = self.shadows.get_mut(name) {
                    s.awaiting_data.retain(|&(i, _, _)| i != idx);
                }
                return;
            }
        }
        if offset == 0 && data.len() == BLOB_HEADER_LEN && data.len() >= 8 && u64::from_le_bytes(data[0..8].try_into().unwrap()) == BLOB_MAGIC {
            return; // blob header
        }
        if let Some(h) = parse_record_header(data, key_len) {
            // C12a: the blob header must have been synced before any record goes into the blob
            // (blobs created in this session: a blob reopened after a crash is not a new blob)
            let session = self.session;
            let header_synced = self.shadows.get(name).map(|s| s.synced_len >= BLOB_HEADER_LEN as u64 || s.created_session != session).unwrap_or(false);
            if !header_synced {
                let v = Violation::new("C12", "record-before-header-sync", "a record was written into a blob whose header was never synced", format!("{} offset {}", name, offset));
                self.violations.push(v);
            }
            let hl = h.len;
            let total = hl as u64 + h.meta_size + h.data_size;
            let meta_end = (hl as u64 + h.meta_size).min(data.len() as u64) as usize;
            let in_buf_total = data.len() as u64;
            let includes_data = in_buf_total == total;
            let meta_raw = data[hl..meta_end].to_vec();
            let rec_data = if includes_data { data[meta_end..].to_vec() } else { vec![] };
            let complete_here = includes_data && kept == data.len();
            let rec = PhysRec {
                blob,
                offset,
                key: h.key.clone(),
                ts: h.timestamp,
                deleted: h.flags & 1 == 1,
                meta_size: h.meta_size,
                data_size: h.data_size,
                meta_raw,
                data: rec_data,
                data_crc_field: h.data_checksum,
                header_crc_ok: h.crc_ok,
                blob_offset_field: h.blob_offset,
                complete: complete_here,
                bytes_written: kept as u64,
                total_len: total,
                seq,
                done_seq: if complete_here { seq } else { 0 },
                tag,
            };
            let recs = self.phys.entry(blob).or_default();
            recs.push(rec);
            let idx = recs.len() - 1;
            if !includes_data && kept == data.len() {
                if let Some(s) = self.shadows.get_mut(name) {
                    s.awaiting_data.push((idx, offset + data.len() as u64, total - in_buf_total));
                }
            }
        } else {
            // unknown payload on a blob file
            self.probes.bump("blob_write_unparsed");
        }
    }
}

impl SimHooks for World {
    fn on_open(&self, path: &Path, create: bool) -> Result<(), i32> {
        if self.inner.borrow().is_foreign(path) {
            return Ok(());
        }
        let mut w = self.inner.borrow_mut();
        let name = w.rel(path);
        let kind = classify(&name);
        if w.dead {
            w.push_event(if create { "create" } else { "open" }, &name, 0, 0, EIO as i64);
            return Err(EIO);
        }
        let iok = if create { IoKind::Create } else { IoKind::Open };
        let action = w.fault_for(iok, class_of(kind));
        let mut res = Ok(());
        match action {
            Some(FaultAction::Fail { errno }) | Some(FaultAction::Short { errno, .. }) => {
                w.note_fault(if create { "create_err" } else { "open_err" }, &name);
                res = Err(errno);
            }
            Some(FaultAction::Kill { keep }) => {
                w.note_fault("kill", &name);
                w.dead = true;
                w.killed_at = Some(w.seq);
                self.kill_flag.set(true);
                self.kill_notify.notify_one();
                if keep == 0 {
                    res = Err(EIO);
                }
            }
            None => {}
        }
        if w.query_violation() && create {
            let v = Violation::new("C07", "C07.query-writes", "create during query phase", format!("create {} during a query-only phase", name));
            w.violations.push(v);
        }
        let r = match res {
            Ok(()) => 0,
            Err(e) => e as i64,
        };
        w.push_event(if create { "create" } else { "open" }, &name, 0, 0, r);
        res
    }

    fn opened(&self, path: &Path, create: bool, len: u64) {
        if self.inner.borrow().is_foreign(path) {
            return ;
        }
        let mut w = self.inner.borrow_mut();
        let name = w.rel(path);
        let kind = classify(&name);
        let now = w.sim_ms();
        if create {
            if let FileKind::Blob(id) = kind {
                let existed_live = w.shadows.get(&name).map(|s| !s.removed && !s.quarantined).unwrap_or(false);
                if w.ids_seen.contains(&id) {
                    let cause = if existed_live { "create over an existing blob file" } else { "blob id reused after quarantine" };
                    let v = Violation::new("C07,C03", "C07.id-reuse", cause, format!("blob id {} created again (ids ever seen: {:?})", id, w.ids_seen));
                    w.violations.push(v);
                }
                w.ids_seen.insert(id);
                w.phys.entry(id).or_default();
            }
            let cur_session = w.session;
            let sh = w.shadows.entry(name.clone()).or_insert_with(Shadow::default);
            if sh.quarantined || sh.removed || sh.content.is_empty() {
                // fresh file (or re-created index)
                let keepq = false;
                *sh = Shadow { created_ms: now, quarantined: keepq, created_session: cur_session, ..Default::default() };
            }
            sh.append_mode = false;
            if len as usize != sh.content.len() {
                // created over an existing non-empty file we did not know
                w.probes.bump("create_len_mismatch");
            }
        } else if let Some(sh) = w.shadows.get_mut(&name) {
            // whether the kernel moves positional writes to the end of file is reported by `opened_append`
            sh.append_mode = false;
        } else {
            let content = std::fs::read(path).unwrap_or_default();
            let sh = Shadow { synced_len: content.len() as u64, durable: content.clone(), content, created_ms: now, append_mode: false, ..Default::default() };
            if let FileKind::Blob(id) = kind {
                w.ids_seen.insert(id);
            }
            w.shadows.insert(name, sh);
        }
    }

    fn opened_append(&self, path: &Path, append: bool) {
        if self.inner.borrow().is_foreign(path) {
            return;
        }
        let mut w = self.inner.borrow_mut();
        let name = w.rel(path);
        if append {
            w.probes.bump("descriptor_with_o_append");
        }
        if let Some(sh) = w.shadows.get_mut(&name) {
            sh.append_mode = append;
        }
    }

    fn on_write(&self, path: &Path, offset: u64, data: &[u8]) -> WriteDecision {
        if self.inner.borrow().is_foreign(path) {
            return WriteDecision::Proceed;
        }
        let mut w = self.inner.borrow_mut();
        let name = w.rel(path);
        let kind = classify(&name);
        if w.dead {
            w.push_event("write", &name, offset, data.len() as u64, EIO as i64);
            return WriteDecision::Fail(EIO);
        }
        let action = w.fault_for(IoKind::Write, class_of(kind));
        let mut decision = WriteDecision::Proceed;
        let mut kept = data.len();
        match action {
            Some(FaultAction::Fail { errno }) => {
                w.note_fault("write_err", &name);
                decision = WriteDecision::Fail(errno);
                kept = 0;
            }
            Some(FaultAction::Short { keep, errno }) => {
                w.note_fault("short_write", &name);
                let keep = if keep == u32::MAX - 1 { data.len().saturating_sub(1) as u32 } else if keep == u32::MAX - 2 { (data.len() / 2) as u32 } else { keep };
                let k = (keep as usize).min(data.len().saturating_sub(1));
                decision = if k == 0 { WriteDecision::Fail(errno) } else { WriteDecision::Short(k, errno) };
                kept = k;
            }
            Some(FaultAction::Kill { keep }) => {
                w.note_fault("kill", &name);
                w.dead = true;
                w.killed_at = Some(w.seq);
                self.kill_flag.set(true);
                self.kill_notify.notify_one();
                let keep = if keep == u32::MAX - 1 { data.len().saturating_sub(1) as u32 } else { keep };
                if keep == u32::MAX || keep as usize >= data.len() {
                    decision = WriteDecision::Proceed;
                } else if keep == 0 {
                    decision = WriteDecision::Fail(EIO);
                    kept = 0;
                } else {
                    decision = WriteDecision::Short(keep as usize, EIO);
                    kept = keep as usize;
                }
            }
            None => {}
        }
        let res: i64 = match decision {
            WriteDecision::Proceed => 0,
            WriteDecision::Fail(e) => e as i64,
            WriteDecision::Short(k, _) => -(k as i64) - 1,
        };
        let seq = w.push_event("write", &name, offset, data.len() as u64, res);
        // O_APPEND descriptor: the kernel appends at the end of file whatever the requested offset is
        let requested_offset = offset;
        let offset = match w.shadows.get(&name) {
            Some(sh) if sh.append_mode => sh.content.len() as u64,
            _ => offset,
        };
        if offset != requested_offset {
            w.probes.bump("append_mode_write_moved_by_kernel");
        }
        if w.query_violation() {
            let v = Violation::new("C07", "C07.query-writes", "write during query phase", format!("write to {} during a query-only phase", name));
            w.violations.push(v);
        }
        let track = w.track_durable;
        let is_blob = matches!(kind, FileKind::Blob(_));
        // monitors + shadow
        {
            if !w.shadows.contains_key(&name) {
                let now = w.sim_ms();
                w.shadows.insert(name.clone(), Shadow { created_ms: now, ..Default::default() });
            }
            let end = w.shadows.get(&name).unwrap().content.len() as u64;
            if is_blob && offset < end {
                // legal only inside a range that was reserved but never written
                let wend = offset + kept.max(1) as u64;
                let gi = w.shadows.get(&name).unwrap().gaps.iter().position(|&(a, b)| a <= offset && wend <= b);
                match gi {
                    Some(i) => {
                        w.probes.bump("blob_gap_filled_out_of_order");
                        let sh = w.shadows.get_mut(&name).unwrap();
                        let (a, b) = sh.gaps.remove(i);
                        if a < offset {
                            sh.gaps.push((a, offset));
                        }
                        if offset + (kept as u64) < b {
                            sh.gaps.push((offset + kept as u64, b));
                        }
                    }
                    None => {
                        let v = Violation::new("C07", "C07.append-only", "write over bytes already written to a blob file", format!("write to {} at offset {} len {} but file end is {} (unwritten ranges below the end: {:?})", name, offset, data.len(), end, w.shadows.get(&name).unwrap().gaps));
                        w.violations.push(v);
                    }
                }
            }
            if is_blob && offset > end {
                w.probes.bump("blob_write_gap");
                if kept > 0 {
                    w.shadows.get_mut(&name).unwrap().gaps.push((end, offset));
                }
            }
            let sh = w.shadows.get_mut(&name).unwrap();
            if kept > 0 {
                let need = offset as usize + kept;
                if sh.content.len() < need {
                    sh.content.resize(need, 0);
                }
                sh.content[offset as usize..need].copy_from_slice(&data[..kept]);
                if track {
                    sh.pending.push((offset, data[..kept].to_vec()));
                }
            }
            if kept < data.len() {
                sh.has_holes = true;
            }
            sh.last_write_seq = seq;
        }
        if let FileKind::Blob(id) = kind {
            if kept > 0 || data.is_empty() {
                w.apply_blob_write(&name, id, offset, data, kept, seq);
            }
        }
        if let FileKind::Index(_) = kind {
            // reach probe: does the B+tree of this index file have more than one inner level?
            if offset == 0 && data.len() > crate::faults::INDEX_HEADER_LEN && kept == data.len() {
                let records = u64::from_le_bytes(data[8..16].try_into().unwrap());
                let rhs = u64::from_le_bytes(data[16..24].try_into().unwrap());
                let leaves = (records * rhs) / 4096 + 1;
                let fanout = (4096 - 16) / (w.key_len as u64 + 8) + 1;
                if leaves > 1 {
                    w.probes.bump("index_tree_has_inner_node");
                }
                if leaves > fanout {
                    w.probes.bump("index_tree_has_two_inner_levels");
                }
            }
        }
        if let FileKind::Index(id) = kind {
            // C12b: the header rewrite that sets the `written` bit (index complete) must come after a
            // sync of the blob covering the blob size recorded in that header
            if offset == 0 && data.len() == crate::faults::INDEX_HEADER_LEN && kept == data.len() && data[crate::faults::INDEX_VERSION_BYTE] & 1 == 1 {
                let blob_size = u64::from_le_bytes(data[75..83].try_into().unwrap());
                let bname = name.replace(".index", ".blob");
                let synced = w.shadows.get(&bname).map(|s| s.synced_len).unwrap_or(0);
                // after a failed or partial write the storage's size counter is ahead of the file: the
                // recorded blob size then describes bytes that do not exist (not an ordering question)
                let holes = w.shadows.get(&bname).map(|s| s.has_holes).unwrap_or(false);
                w.probes.bump("index_marked_complete");
                if synced < blob_size && !holes {
                    let v = Violation::new("C12", "index-complete-before-blob-sync", "an index file was marked complete before the blob bytes it describes were synced", format!("{} describes blob size {} but only {} bytes of {} are synced", name, blob_size, synced, bname));
                    w.violations.push(v);
                }
            }
        }
        decision
    }

    fn on_read(&self, path: &Path, offset: u64, len: usize) -> Result<(), i32> {
        if self.inner.borrow().is_foreign(path) {
            return Ok(());
        }
        let mut w = self.inner.borrow_mut();
        w.reads += 1;
        let name = w.rel(path);
        w.sig = mix(w.sig ^ mix_all(&[0x7ead, hash_str(&name), offset, len as u64]));
        if w.dead {
            return Err(EIO);
        }
        // read faults: only through Nth{Read,..}
        let kind = classify(&name);
        let has_read_fault = w.faults.iter().any(|(f, used)| !*used && matches!(f.sel, Sel::Nth { kind: IoKind::Read, .. }));
        if has_read_fault {
            let class = class_of(kind);
            let n = {
                let c = w.nth_counts.entry((IoKind::Read, class)).or_insert(0);
                let v = *c;
                *c += 1;
                v
            };
            let mut hit: Option<i32> = None;
            for (f, used) in w.faults.iter_mut() {
                if *used || hit.is_some() {
                    continue;
                }
                if let Sel::Nth { kind: IoKind::Read, class: c, n: want } = &f.sel {
                    if (*c == class || *c == PathClass::Any) && *want == n {
                        *used = true;
                        if let FaultAction::Fail { errno } = f.action {
                            hit = Some(errno);
                        }
                    }
                }
            }
            if let Some(errno) = hit {
                w.push_event("read", &name, offset, len as u64, errno as i64);
                w.note_fault("read_err", &name);
                return Err(errno);
            }
        }
        // reads made by anything but the checker's own queries
        let has_op_read_fault = w.faults.iter().any(|(f, used)| !*used && matches!(f.sel, Sel::NthOpRead { .. }));
        if has_op_read_fault && !w.eff_tag().map(|t| t.client == u32::MAX).unwrap_or(false) {
            let class = class_of(kind);
            let n = {
                let c = w.op_read_counts.entry(class).or_insert(0);
                let v = *c;
                *c += 1;
                v
            };
            let mut hit: Option<i32> = None;
            for (f, used) in w.faults.iter_mut() {
                if *used || hit.is_some() {
                    continue;
                }
                if let Sel::NthOpRead { class: c, n: want } = &f.sel {
                    if (*c == class || *c == PathClass::Any) && *want == n {
                        *used = true;
                        if let FaultAction::Fail { errno } = f.action {
                            hit = Some(errno);
                        }
                    }
                }
            }
            if let Some(errno) = hit {
                w.push_event("read", &name, offset, len as u64, errno as i64);
                w.note_fault("op_read_err", &name);
                return Err(errno);
            }
        }
        Ok(())
    }

    fn on_sync(&self, path: &Path) -> Result<(), i32> {
        if self.inner.borrow().is_foreign(path) {
            return Ok(());
        }
        let mut w = self.inner.borrow_mut();
        let name = w.rel(path);
        let kind = classify(&name);
        if w.dead {
            w.push_event("sync", &name, 0, 0, EIO as i64);
            return Err(EIO);
        }
        let action = w.fault_for(IoKind::Sync, class_of(kind));
        let mut res = Ok(());
        match action {
            Some(FaultAction::Fail { errno }) | Some(FaultAction::Short { errno, .. }) => {
                w.note_fault("sync_err", &name);
                res = Err(errno);
            }
            Some(FaultAction::Kill { keep }) => {
                w.note_fault("kill", &name);
                w.dead = true;
                w.killed_at = Some(w.seq);
                self.kill_flag.set(true);
                self.kill_notify.notify_one();
                if keep == 0 {
                    res = Err(EIO);
                }
            }
            None => {}
        }
        if res.is_err() {
            let e = res.unwrap_err();
            w.push_event("sync", &name, 0, 0, e as i64);
            return Err(e);
        }
        Ok(())
    }

    fn synced(&self, path: &Path) {
        if self.inner.borrow().is_foreign(path) {
            return ;
        }
        let mut w = self.inner.borrow_mut();
        let name = w.rel(path);
        let track = w.track_durable;
        let len = w.shadows.get(&name).map(|s| s.content.len() as u64).unwrap_or(0);
        let seq = w.push_event("sync", &name, 0, len, 0);
        if let (FileKind::Blob(id), Some(t)) = (classify(&name), w.eff_tag()) {
            w.blob_sync_by_op.insert((t.client, t.uid), id);
        }
        if let Some(sh) = w.shadows.get_mut(&name) {
            sh.synced_len = sh.content.len() as u64;
            sh.syncs += 1;
            if sh.first_sync_seq.is_none() {
                sh.first_sync_seq = Some(seq);
            }
            if track {
                sh.durable = sh.content.clone();
                sh.pending.clear();
            }
        }
    }

    fn on_truncate(&self, path: &Path) {
        if self.inner.borrow().is_foreign(path) {
            return ;
        }
        let mut w = self.inner.borrow_mut();
        let name = w.rel(path);
        let kind = classify(&name);
        w.push_event("truncate", &name, 0, 0, 0);
        w.mut_seq += 1;
        if let FileKind::Blob(_) = kind {
            let v = Violation::new("C07", "C07.truncate", "blob file truncated", format!("truncate of {}", name));
            w.violations.push(v);
        }
        if w.query_violation() {
            let v = Violation::new("C07", "C07.query-writes", "truncate during query phase", format!("truncate of {} during a query-only phase", name));
            w.violations.push(v);
        }
        if w.dead {
            return;
        }
        let track = w.track_durable;
        if let Some(sh) = w.shadows.get_mut(&name) {
            sh.content.clear();
            sh.gaps.clear();
            sh.synced_len = 0;
            if track {
                // model: truncation of an index is durable when performed
                sh.durable.clear();
                sh.pending.clear();
            }
        }
    }

    fn job_begin(&self) -> (u64, Option<Duration>) {
        let mut w = self.inner.borrow_mut();
        crate::exec::WATCH_JOBS.store(w.next_job, std::sync::atomic::Ordering::Relaxed);
        crate::exec::WATCH_SIMMS.store(w.sim_ms(), std::sync::atomic::Ordering::Relaxed);
        crate::exec::WATCH_SEQ.store(w.seq, std::sync::atomic::Ordering::Relaxed);
        let token = w.next_job;
        w.next_job += 1;
        let tag = w.cur_tag;
        w.jobs.insert(token, tag);
        w.jobs_in_flight += 1;
        let h = match tag {
            Some(t) => {
                let i = w.op_job_idx;
                w.op_job_idx += 1;
                mix_all(&[w.sched.seed, 1, t.client as u64, t.uid as u64, i])
            }
            None => {
                let i = w.bg_job_idx;
                w.bg_job_idx += 1;
                mix_all(&[w.sched.seed, 2, i])
            }
        };
        let mut ms = match w.sched.latency {
            Latency::Zero => 0,
            Latency::Uniform(max) => h % (max + 1),
            Latency::HeavyTail { rare, stall_ms } => {
                if rare > 0 && (h >> 20) % rare == 0 {
                    w.probes.bump("job_stall");
                    stall_ms
                } else {
                    h % 4
                }
            }
        };
        if let Some((n, stall)) = w.stall_job {
            if n == token {
                ms = stall;
                w.fired.bump("stall");
            }
        }
        (token, if ms == 0 { None } else { Some(Duration::from_millis(ms)) })
    }

    fn job_enter(&self, token: u64) {
        let mut w = self.inner.borrow_mut();
        // a preemptible job is "current" only while one of its file operations is dispatched
        if !w.sched.preempt_jobs {
            w.running_jobs.push(token);
        }
    }

    fn job_preemptible(&self, _token: u64) -> bool {
        self.inner.borrow().sched.preempt_jobs
    }

    fn job_preempt(&self, token: u64) -> bool {
        let mut w = self.inner.borrow_mut();
        w.buggify_ctr += 1;
        let y = mix_all(&[w.sched.seed, 5, token, w.buggify_ctr]) % 2 == 0;
        if y {
            w.probes.bump("closure_preempted_at_io_call");
        }
        y
    }

    fn job_preempt_delay(&self, token: u64) -> Duration {
        // mostly one scheduler round; sometimes long enough for other operations to complete
        // (and be acknowledged) while this closure sits between two of its file operations
        let w = self.inner.borrow();
        let r = mix_all(&[w.sched.seed, 6, token, w.buggify_ctr]);
        match r % 8 {
            0 => Duration::from_millis(1 + (r >> 8) % 4),
            1 => Duration::from_micros(100 + (r >> 8) % 900),
            _ => Duration::ZERO,
        }
    }

    fn job_call(&self, token: u64, begin: bool) {
        let mut w = self.inner.borrow_mut();
        if begin {
            w.running_jobs.push(token);
        } else if let Some(p) = w.running_jobs.iter().rposition(|t| *t == token) {
            w.running_jobs.remove(p);
        }
    }

    fn job_exit(&self, token: u64) {
        let mut w = self.inner.borrow_mut();
        if let Some(p) = w.running_jobs.iter().rposition(|t| *t == token) {
            w.running_jobs.remove(p);
        }
        w.jobs.remove(&token);
        w.jobs_in_flight = w.jobs_in_flight.saturating_sub(1);
    }

    fn inplace_small(&self) -> bool {
        self.inner.borrow().sched.inplace_small
    }

    fn now(&self) -> SystemTime {
        let w = self.inner.borrow();
        let ms = 1_700_000_000_000i64 + w.sim_ms() as i64 + w.skew_ms;
        UNIX_EPOCH + Duration::from_millis(ms.max(0) as u64)
    }

    fn file_created_at(&self, path: &Path) -> Option<SystemTime> {
        let w = self.inner.borrow();
        if w.is_foreign(path) {
            return None;
        }
        let name = w.rel(path);
        w.shadows.get(&name).map(|s| UNIX_EPOCH + Duration::from_secs(1_700_000_000) + Duration::from_millis(s.created_ms))
    }

    fn knob(&self, name: &str, default: usize) -> usize {
        let w = self.inner.borrow();
        match name {
            "observer_channel" => w.sched.channel_cap,
            _ => default,
        }
    }

    fn lock_poll(&self) {
        crate::exec::WATCH_POLLS.fetch_add(1, std::sync::atomic::Ordering::Relaxed);
        crate::exec::storm_breaker(self);
    }

    fn buggify(&self, site: &str) -> bool {
        let mut w = self.inner.borrow_mut();
        let Some(i) = BUGGIFY_SITES.iter().position(|s| *s == site) else { return false };
        if w.sched.buggify_mask & (1 << i) == 0 {
            return false;
        }
        w.buggify_ctr += 1;
        let h = mix_all(&[w.sched.seed, 3, i as u64, w.buggify_ctr]);
        let y = if i >= 5 { h % 4 == 0 } else { h % 2 == 0 };
        if y {
            w.probes.bump("buggify_yield");
        }
        y
    }
}

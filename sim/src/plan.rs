//! The explicit, serialisable description of one simulated run. A run is a pure function of
//! a `Plan` and the code under test; generators build plans from a seed, the minimiser edits
//! plans, replay files are plans plus the expected violation.

use serde::{Deserialize, Serialize};

#[derive(Serialize, Deserialize, Clone, Debug, PartialEq)]
pub struct BloomCfg {
    pub elements: usize,
    pub hashers: usize,
    pub max_bits: usize,
    pub fpr_milli: u32,
}

#[derive(Serialize, Deserialize, Clone, Debug, PartialEq)]
pub struct StoreCfg {
    pub key_len: u16,
    pub max_data_in_blob: u64,
    pub max_blob_size: u64,
    pub allow_duplicates: bool,
    pub ignore_corrupted: bool,
    pub validate_data: bool,
    pub bloom: Option<BloomCfg>,
    pub group_size: usize,
    pub deferred_min_ms: u64,
    pub deferred_max_ms: u64,
    pub max_dirty: u64,
}

impl Default for StoreCfg {
    fn default() -> Self {
        StoreCfg {
            key_len: 8,
            max_data_in_blob: 1000,
            max_blob_size: 1_000_000,
            allow_duplicates: true,
            ignore_corrupted: false,
            validate_data: false,
            bloom: Some(BloomCfg { elements: 100, hashers: 2, max_bits: 1 << 12, fpr_milli: 1 }),
            group_size: 8,
            deferred_min_ms: 60_000,
            deferred_max_ms: 180_000,
            max_dirty: 32 * 1024 * 1024,
        }
    }
}

#[derive(Serialize, Deserialize, Clone, Copy, Debug, PartialEq)]
pub enum Latency {
    /// every job just yields once
    Zero,
    /// uniform 0..=max ms
    Uniform(u64),
    /// mostly 0..3 ms, 1 in `rare` jobs stalls `stall_ms`
    HeavyTail { rare: u64, stall_ms: u64 },
}

#[derive(Serialize, Deserialize, Clone, Debug, PartialEq)]
pub struct SchedCfg {
    pub seed: u64,
    pub latency: Latency,
    /// true = small I/O runs in place (multi-thread flavour); false = every I/O suspends
    pub inplace_small: bool,
    /// bit i enables buggify site i (see world::BUGGIFY_SITES)
    pub buggify_mask: u32,
    pub channel_cap: usize,
    /// blocking closures run on threads of their own and may be interleaved with other tasks at each
    /// of their file operations (as on a real blocking pool); false = a closure runs atomically
    #[serde(default)]
    pub preempt_jobs: bool,
}

impl Default for SchedCfg {
    fn default() -> Self {
        SchedCfg { seed: 0, latency: Latency::Zero, inplace_small: false, buggify_mask: 0, channel_cap: 1024, preempt_jobs: false }
    }
}

#[derive(Serialize, Deserialize, Clone, Debug, PartialEq)]
pub enum Pred {
    Always,
    Never,
    CountGt(usize),
}

#[derive(Serialize, Deserialize, Clone, Debug, PartialEq)]
pub enum OpKind {
    Write { key: u8, ts: u64, len: u32, meta: Option<u8> },
    Delete { key: u8, ts: u64, meta: Option<u8>, only_if_presented: bool },
    Read { key: u8 },
    ReadWith { key: u8, meta: u8 },
    ReadAll { key: u8 },
    ReadAllDel { key: u8 },
    Contains { key: u8 },
    CheckFilters { key: u8 },
    TryClose,
    TryCreate,
    TryRestore,
    CloseBg,
    CreateBg,
    RestoreBg,
    ForceUpdate(Pred),
    FreeExcess,
    Offload { needed: usize, level: usize },
    Fsync,
    Idle { ms: u64 },
    /// jump the simulated wall clock by this many ms (may be negative)
    ClockJump { ms: i64 },
    /// clean close + reopen (sequential sessions only); damage applied to index files in between
    Restart { lazy: bool, damage: Vec<AtRest> },
    /// clean close, then for each truncation length of the chosen blob's index file (at most
    /// `max_cuts` lengths, evenly spread plus structural boundaries): reopen, compare every query
    /// with the model, close again
    RestartSweep { lazy: bool, blob: usize, max_cuts: u32 },
    /// damage a file at rest while the storage is open (stored-byte faults)
    Damage(AtRest),
    /// keep writing (one record every `gap_ms`) until the active blob has been switched or
    /// `max_writes` writes were made; liveness probe for rotation
    OverflowProbe { max_writes: u32, gap_ms: u64 },
    /// under the open storage: for each of up to `max_positions` byte positions of region `class` of
    /// one stored record, flip a burst, compare every query, restore the bytes
    FlipSweep { blob: usize, rec: usize, class: ByteClass, max_positions: u32 },
    /// full comparison of every query with the model now (profiles without per-step checks)
    CheckNow,
    /// every closed blob that holds records must have an up-to-date index file by now
    CheckDumped,
    /// from here to the end of the session: no comparison queries, no settling between operations, and
    /// `close()` is called at once after the last one (background work and queued requests still pending)
    QuietTail,
    /// poll the operation `k` times, then drop its future (cancellation)
    Cancelled { k: u32, op: Box<OpKind> },
}

#[derive(Serialize, Deserialize, Clone, Debug, PartialEq)]
pub struct Op {
    pub uid: u32,
    /// think time before the operation, simulated ms
    pub think_ms: u64,
    pub kind: OpKind,
}

#[derive(Serialize, Deserialize, Clone, Debug, PartialEq)]
pub enum AtRest {
    IndexRemove { blob: usize },
    IndexTruncate { blob: usize, len: u64 },
    /// truncate as fraction (per-mille) of the file length; resolved at run time
    IndexTruncateFrac { blob: usize, permille: u32 },
    IndexHeaderOnly { blob: usize },
    IndexClearWritten { blob: usize },
    /// replace by an older saved copy of the same index (if any was saved)
    IndexStale { blob: usize },
    /// flip `mask` (<= 32 bit burst) in record `rec` of blob, at byte `off` of region `class`
    BitFlip { blob: usize, rec: usize, class: ByteClass, off: u32, mask: u32 },
    BlobTruncate { blob: usize, len: u64 },
    /// zero a range of the body of an index file (header intact): what a lost un-synced write leaves
    IndexBodyZero { blob: usize, from_permille: u32, len: u32 },
}

#[derive(Serialize, Deserialize, Clone, Copy, Debug, PartialEq)]
pub enum ByteClass {
    BlobHeader,
    RecHeader,
    Meta,
    Data,
}

#[derive(Serialize, Deserialize, Clone, Copy, Debug, PartialEq, Eq, Hash)]
pub enum IoKind {
    Open,
    Create,
    Write,
    Sync,
    Read,
}

#[derive(Serialize, Deserialize, Clone, Copy, Debug, PartialEq, Eq, Hash)]
pub enum PathClass {
    Blob,
    Index,
    Any,
}

#[derive(Serialize, Deserialize, Clone, Debug, PartialEq)]
pub enum Sel {
    /// the n-th mutating I/O event (open/create/write/sync) of the session, 0-based
    Global { n: u64 },
    /// the n-th operation of a kind on a path class, 0-based
    Nth { kind: IoKind, class: PathClass, n: u64 },
    /// the n-th read of a path class that is not made by one of the checker's own comparison queries
    /// (reads of index loads, deletes into dumped blobs, restores, dumps, background work), 0-based
    NthOpRead { class: PathClass, n: u64 },
}

#[derive(Serialize, Deserialize, Clone, Debug, PartialEq)]
pub enum FaultAction {
    Fail { errno: i32 },
    /// keep the first `keep` bytes (clamped to len-1) of a write, then fail
    Short { keep: u32, errno: i32 },
    /// process dies at this event: writes keep `keep` bytes (u32::MAX = all), other ops take effect
    /// iff `keep > 0`; afterwards the disk is dead
    Kill { keep: u32 },
}

#[derive(Serialize, Deserialize, Clone, Debug, PartialEq)]
pub struct FaultSpec {
    pub session: usize,
    pub sel: Sel,
    pub action: FaultAction,
}

/// How the un-synced suffix of each file is treated when power is lost.
#[derive(Serialize, Deserialize, Clone, Debug, PartialEq)]
pub struct PowerCut {
    /// per-mille of the un-synced bytes of the most recently written file that survive
    pub keep_permille: u32,
    /// explicit number of un-synced bytes kept (overrides permille when Some)
    pub keep_bytes: Option<u64>,
    /// 0 = clean cut, 1 = last <=512 bytes of the kept tail zeroed, 2 = garbage
    pub torn: u8,
    /// other files keep all (true) or none (false) of their un-synced bytes
    pub others_keep_all: bool,
    /// un-synced writes are not ordered on a real disk: in every file with at least two un-synced
    /// writes the write with this index (modulo their number) is lost while the later ones survive
    #[serde(default)]
    pub lost_write: Option<u32>,
    /// the same at the granularity of the disk: of the 4 KiB blocks touched by the un-synced writes of
    /// a file, the block with this index (modulo their number) keeps its old content (zeros where the
    /// file did not reach before) while everything else survives
    #[serde(default)]
    pub lost_block: Option<u32>,
}

#[derive(Serialize, Deserialize, Clone, Debug, PartialEq)]
pub enum SessionEnd {
    Close,
    /// the storage object is dropped without close (no dump of the active blob)
    Drop,
    /// the fault plan kills the process; if it never fires the session is closed normally
    Killed,
    /// like Killed, then the directory is rebuilt from the durable state
    PowerLoss(PowerCut),
}

#[derive(Serialize, Deserialize, Clone, Debug, PartialEq)]
pub struct SessionPlan {
    pub lazy_init: bool,
    pub pre: Vec<AtRest>,
    /// one list per client; a single list = sequential session with per-step checks
    pub clients: Vec<Vec<Op>>,
    pub end: SessionEnd,
    /// store config changes for this session (validate_data / ignore_corrupted flips)
    pub validate_data: Option<bool>,
    pub ignore_corrupted: Option<bool>,
    /// a second bloom configuration: every other (re)opening of the storage inside this session uses it
    #[serde(default)]
    pub bloom_alt: Option<BloomCfg>,
    #[serde(default)]
    pub bloom_use_alt: bool,
    /// the second configuration is "no bloom filter at all": blobs closed in those openings store an empty
    /// placeholder that later openings (bloom on again) read back
    #[serde(default)]
    pub bloom_alt_off: bool,
}

impl SessionPlan {
    pub fn sequential(ops: Vec<Op>) -> Self {
        SessionPlan { lazy_init: false, pre: vec![], clients: vec![ops], end: SessionEnd::Close, validate_data: None, ignore_corrupted: None, bloom_alt: None, bloom_use_alt: false, bloom_alt_off: false }
    }
}

#[derive(Serialize, Deserialize, Clone, Debug, PartialEq)]
pub struct Expected {
    pub property: String,
    pub rule: String,
    pub cause: String,
}

#[derive(Serialize, Deserialize, Clone, Debug, PartialEq)]
pub struct Plan {
    pub property: String,
    pub profile: String,
    pub seed: u64,
    pub store: StoreCfg,
    pub sched: SchedCfg,
    pub sessions: Vec<SessionPlan>,
    pub faults: Vec<FaultSpec>,
    /// per-step full query check (sequential sessions)
    pub check_each_step: bool,
    /// keys 0..n_keys are queried by the oracles
    pub n_keys: u8,
    /// meta values 0..n_metas
    pub n_metas: u8,
    pub expect: Option<Expected>,
}

impl Plan {
    pub fn op_count(&self) -> usize {
        self.sessions.iter().map(|s| s.clients.iter().map(|c| c.len()).sum::<usize>()).sum()
    }
}

//! The mapping from a plan operation to the pearl API call (one future per operation).

use crate::exec::*;
use crate::plan::*;
use bytes::Bytes;
use pearl::{BlobRecordTimestamp, Key, ReadResult, Storage};
use std::future::Future;
use std::pin::Pin;
use std::time::Duration;

pub type OpFuture<'a> = Pin<Box<dyn Future<Output = OpResult> + 'a>>;

pub fn op_future<'a, K>(storage: &'a Storage<K>, key_len: usize, uid: u32, kind: &'a OpKind) -> OpFuture<'a>
where
    for<'b> K: Key<'b> + AsRef<K> + 'static,
{
    match kind {
        OpKind::Write { key, ts, len, meta } => {
            let keyk: K = K::from(key_bytes(*key, key_len));
            let value = Bytes::from(value_bytes(uid, *len as usize));
            let ts = BlobRecordTimestamp::new(*ts);
            let meta = *meta;
            Box::pin(async move {
                let r = match meta {
                    Some(m) => storage.write_with(&keyk, value, ts, meta_of(m)).await,
                    None => storage.write(&keyk, value, ts).await,
                };
                match r {
                    Ok(()) => OpResult::Ok,
                    Err(e) => OpResult::Err(err_kind(&e)),
                }
            })
        }
        OpKind::Delete { key, ts, meta, only_if_presented } => {
            let keyk: K = K::from(key_bytes(*key, key_len));
            let ts = BlobRecordTimestamp::new(*ts);
            let meta = *meta;
            let oip = *only_if_presented;
            Box::pin(async move {
                let r = match meta {
                    Some(m) => storage.delete_with(&keyk, ts, meta_of(m), oip).await,
                    None => storage.delete(&keyk, ts, oip).await,
                };
                match r {
                    Ok(n) => OpResult::OkCount(n),
                    Err(e) => OpResult::Err(err_kind(&e)),
                }
            })
        }
        OpKind::Read { key } => {
            let keyk: K = K::from(key_bytes(*key, key_len));
            Box::pin(async move { read_to_result(&storage.read(&keyk).await) })
        }
        OpKind::ReadWith { key, meta } => {
            let keyk: K = K::from(key_bytes(*key, key_len));
            let m = meta_of(*meta);
            Box::pin(async move { read_to_result(&storage.read_with(&keyk, &m).await) })
        }
        OpKind::Contains { key } => {
            let keyk: K = K::from(key_bytes(*key, key_len));
            Box::pin(async move {
                match storage.contains(&keyk).await {
                    Ok(ReadResult::Found(t)) => OpResult::Read { class: "Found", data_hash: 0, len: 0, ts: t.into() },
                    Ok(ReadResult::Deleted(t)) => OpResult::Read { class: "Deleted", data_hash: 0, len: 0, ts: t.into() },
                    Ok(ReadResult::NotFound) => OpResult::Read { class: "NotFound", data_hash: 0, len: 0, ts: 0 },
                    Err(e) => OpResult::Err(err_kind(&e)),
                }
            })
        }
        OpKind::ReadAll { key } => {
            let keyk: K = K::from(key_bytes(*key, key_len));
            Box::pin(async move {
                match storage.read_all(&keyk).await {
                    Ok(es) => OpResult::List(es.iter().map(|e| (e.is_deleted(), e.timestamp().into())).collect()),
                    Err(e) => OpResult::Err(err_kind(&e)),
                }
            })
        }
        OpKind::ReadAllDel { key } => {
            let keyk: K = K::from(key_bytes(*key, key_len));
            Box::pin(async move {
                match storage.read_all_with_deletion_marker(&keyk).await {
                    Ok(es) => OpResult::List(es.iter().map(|e| (e.is_deleted(), e.timestamp().into())).collect()),
                    Err(e) => OpResult::Err(err_kind(&e)),
                }
            })
        }
        OpKind::CheckFilters { key } => {
            let keyk: K = K::from(key_bytes(*key, key_len));
            Box::pin(async move { OpResult::Filter(storage.check_filters(&keyk).await) })
        }
        OpKind::TryClose => Box::pin(async move {
            match storage.try_close_active_blob().await {
                Ok(()) => OpResult::Ok,
                Err(e) => OpResult::Err(err_kind(&e)),
            }
        }),
        OpKind::TryCreate => Box::pin(async move {
            match storage.try_create_active_blob().await {
                Ok(()) => OpResult::Ok,
                Err(e) => OpResult::Err(err_kind(&e)),
            }
        }),
        OpKind::TryRestore => Box::pin(async move {
            match storage.try_restore_active_blob().await {
                Ok(()) => OpResult::Ok,
                Err(e) => OpResult::Err(err_kind(&e)),
            }
        }),
        OpKind::CloseBg => Box::pin(async move {
            storage.close_active_blob_in_background().await;
            OpResult::Ok
        }),
        OpKind::CreateBg => Box::pin(async move {
            storage.create_active_blob_in_background().await;
            OpResult::Ok
        }),
        OpKind::RestoreBg => Box::pin(async move {
            storage.restore_active_blob_in_background().await;
            OpResult::Ok
        }),
        OpKind::ForceUpdate(pred) => {
            let pred = pred.clone();
            Box::pin(async move {
                match pred {
                    Pred::Always => storage.force_update_active_blob(|_| true).await,
                    Pred::Never => storage.force_update_active_blob(|_| false).await,
                    Pred::CountGt(_) => storage.force_update_active_blob(|s| s.map_or(false, |s| s.records_count > 2)).await,
                }
                OpResult::Ok
            })
        }
        OpKind::FreeExcess => Box::pin(async move {
            let _ = storage.free_excess_resources().await;
            OpResult::Ok
        }),
        OpKind::Fsync => Box::pin(async move {
            match storage.fsyncdata().await {
                Ok(()) => OpResult::Ok,
                Err(e) => OpResult::Err(format!("Io({:?})", e.kind())),
            }
        }),
        OpKind::Idle { ms } => {
            let ms = *ms;
            Box::pin(async move {
                tokio::time::sleep(Duration::from_millis(ms)).await;
                OpResult::Ok
            })
        }
        OpKind::Offload { .. } | OpKind::ClockJump { .. } | OpKind::Restart { .. } | OpKind::RestartSweep { .. } | OpKind::Cancelled { .. } | OpKind::Damage(_) | OpKind::OverflowProbe { .. } | OpKind::CheckDumped | OpKind::QuietTail | OpKind::CheckNow | OpKind::FlipSweep { .. } => Box::pin(async move { OpResult::Skipped }),
    }
}

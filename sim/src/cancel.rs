//! Cancellation: poll an operation future `k` times, then drop it (C14).

use crate::exec::*;
use crate::plan::*;
use crate::world::*;
use pearl::{Key, Storage};
use std::rc::Rc;

pub async fn exec_cancelled<K>(ctx: &Rc<RunCtx>, storage: &Storage<K>, uid: u32, client: u32, k: u32, inner: &OpKind) -> OpResult
where
    for<'a> K: Key<'a> + AsRef<K> + 'static,
{
    let world = ctx.world.clone();
    let tag = Some(Tag { client, uid });
    let fut = tagged(&world, tag, crate::ops::op_future::<K>(storage, ctx.key_len, uid, inner));
    let (out, polls) = poll_k_then_drop(fut, k).await;
    match out {
        Some(r) => {
            world.probe("cancel_completed_before_drop");
            if let OpResult::Err(_) = r {
                ctx.indeterminate.borrow_mut().insert(uid);
            }
            r
        }
        None => {
            world.inner.borrow_mut().fired.bump("cancel");
            ctx.indeterminate.borrow_mut().insert(uid);
            ctx.cancelled.borrow_mut().insert(uid);
            let in_flight = world.inner.borrow().jobs_in_flight;
            if in_flight > 0 {
                world.probe("detached_job_outlived_future");
            }
            OpResult::Cancelled { polls }
        }
    }
}

//! Executes one `Plan` against the real pearl `Storage` inside the simulated world and
//! evaluates the oracles. One call = one deterministic run.

use crate::model::{MRead, View};
use crate::plan::*;
use crate::rng::{mix, mix_all};
use crate::world::*;
use bytes::Bytes;
use pearl::{ArrayKey, BlobRecordTimestamp, BloomConfig, BloomProvider, Builder, Key, Meta, ReadResult, Storage};
use std::cell::{Cell, RefCell};
use std::collections::{BTreeMap, BTreeSet};
use std::future::Future;
use std::path::{Path, PathBuf};
use std::pin::Pin;
use std::rc::Rc;
use std::task::{Context, Poll};
use std::time::Duration;

pub const PREFIX: &str = "t";
pub const CORRUPTED: &str = "corrupted";
pub const QUERY_CLIENT: u32 = u32::MAX;

// ------------------------------------------------------------------------------------------
// helpers: keys, values, metas

pub fn key_bytes(idx: u8, key_len: usize) -> Vec<u8> {
    let mut k = vec![0u8; key_len];
    // spread the keys over the key space so that range filters can reject some of them
    k[0] = idx.wrapping_mul(23).wrapping_add(7);
    for (i, b) in k.iter_mut().enumerate().skip(1) {
        *b = idx.wrapping_add(i as u8).wrapping_mul(31);
    }
    k
}

pub fn value_bytes(uid: u32, len: usize) -> Vec<u8> {
    let mut v = Vec::with_capacity(len);
    let mut s = mix(uid as u64 ^ 0xC0FFEE);
    let tagb = uid.to_le_bytes();
    for i in 0..len {
        if i < 4 {
            v.push(tagb[i]);
        } else {
            if i % 8 == 4 {
                s = mix(s);
            }
            v.push((s >> ((i % 8) * 8)) as u8);
        }
    }
    v
}

pub fn meta_map(m: u8) -> BTreeMap<String, Vec<u8>> {
    let mut b = BTreeMap::new();
    match m % 4 {
        0 => {
            b.insert("a".to_string(), b"x".to_vec());
        }
        1 => {
            b.insert("a".to_string(), b"y".to_vec());
        }
        2 => {
            b.insert("a".to_string(), b"x".to_vec());
            b.insert("bb".to_string(), vec![1, 2, 3]);
        }
        _ => {
            // metadata far beyond the single-pass and in-place thresholds
            b.insert("a".to_string(), vec![b'z'; 70_000]);
        }
    }
    b
}

pub fn meta_of(m: u8) -> Meta {
    let mut meta = Meta::new();
    for (k, v) in meta_map(m) {
        meta.insert(k, v);
    }
    meta
}

fn short(b: &[u8]) -> String {
    let n = b.len().min(12);
    format!("{}b:{}", b.len(), b[..n].iter().map(|x| format!("{:02x}", x)).collect::<String>())
}

// ------------------------------------------------------------------------------------------
// tagged future: sets the world's "current client operation" around every poll

pub struct Tagged<F> {
    world: Rc<World>,
    tag: Option<Tag>,
    first: bool,
    fut: Pin<Box<F>>,
}

pub static WATCH_UID: std::sync::atomic::AtomicU64 = std::sync::atomic::AtomicU64::new(0);
pub static WATCH_JOBS: std::sync::atomic::AtomicU64 = std::sync::atomic::AtomicU64::new(0);
pub static WATCH_SIMMS: std::sync::atomic::AtomicU64 = std::sync::atomic::AtomicU64::new(0);
pub static WATCH_SEQ: std::sync::atomic::AtomicU64 = std::sync::atomic::AtomicU64::new(0);
pub static WATCH_POLLS: std::sync::atomic::AtomicU64 = std::sync::atomic::AtomicU64::new(0);

impl<F: Future> Future for Tagged<F> {
    type Output = F::Output;
    fn poll(mut self: Pin<&mut Self>, cx: &mut Context<'_>) -> Poll<Self::Output> {
        WATCH_UID.store(self.tag.map(|t| ((t.client as u64) << 32) | t.uid as u64).unwrap_or(0), std::sync::atomic::Ordering::Relaxed);
        WATCH_POLLS.fetch_add(1, std::sync::atomic::Ordering::Relaxed);
        storm_breaker(&*self.world);
        let prev = self.world.inner.borrow().cur_tag;
        if self.first {
            self.first = false;
            self.world.set_tag(self.tag);
        } else {
            self.world.resume_tag(self.tag);
        }
        let r = self.fut.as_mut().poll(cx);
        self.world.resume_tag(prev);
        r
    }
}

thread_local! {
    pub static RUN_STARTED: std::cell::Cell<Option<std::time::Instant>> = std::cell::Cell::new(None);
    static STORM: std::cell::Cell<(u64, u64)> = std::cell::Cell::new((0, 0));
    /// (world event seq at the last forced advance that saw progress, forced advances without progress)
    static STORM_STALL: std::cell::Cell<(u64, u64)> = std::cell::Cell::new((0, 0));
}

/// Simulated time only advances when the runtime is idle. Some primitives busy-wait (async-lock's
/// RwLock readers pass a "no writer" notification round while a writer holds the lock), which is
/// harmless under a real clock but would freeze the simulated one for ever while the lock holder
/// waits for a simulated I/O latency. After 20 000 consecutive polls of client operations without
/// any progress of the simulated clock the clock is pushed forward by 1 ms (deterministic).
pub fn storm_breaker(world: &World) {
    // wall-clock guard for a single run (harness protection, never a verdict): the run is cut
    // short as if the process had been killed, and nothing observed afterwards counts
    let polls = WATCH_POLLS.load(std::sync::atomic::Ordering::Relaxed);
    if polls % 8192 == 0 {
        let started = RUN_STARTED.with(|r| r.get());
        if let Some(t0) = started {
            if t0.elapsed().as_secs() >= 40 && !world.is_dead() {
                world.probe("run_aborted_wall_clock_guard");
                world.inner.borrow_mut().dead = true;
                world.kill_flag.set(true);
                world.kill_notify.notify_one();
            }
        }
    }
    let now = world.sim_ms();
    WATCH_SIMMS.store(now, std::sync::atomic::Ordering::Relaxed);
    let (last_ms, n) = STORM.with(|s| s.get());
    if now != last_ms {
        STORM.with(|s| s.set((now, 0)));
        return;
    }
    if n + 1 >= 20_000 {
        STORM.with(|s| s.set((now, 0)));
        if world.inner.borrow().session_start.is_some() {
            // the step doubles while nothing else makes progress (a stalled disk holds a lock for seconds)
            let (_, stalled_so_far) = STORM_STALL.with(|s| s.get());
            let step_ms = 1u64 << stalled_so_far.min(10);
            let waker = futures::task::noop_waker();
            let mut cx = Context::from_waker(&waker);
            let mut f = Box::pin(tokio::time::advance(Duration::from_millis(step_ms)));
            let _ = f.as_mut().poll(&mut cx);
            world.probe("forced_clock_advance_busy_wait");
            // no I/O event and no completed operation for 200 forced advances (4 million polls):
            // the busy-waiting tasks wait for something that will never happen
            let progress = {
                let w = world.inner.borrow();
                w.seq + w.reads + w.next_job
            };
            let (last, stalled) = STORM_STALL.with(|s| s.get());
            let job_pending = world.inner.borrow().jobs_in_flight > 0;
            if progress != last {
                STORM_STALL.with(|s| s.set((progress, 0)));
            } else if job_pending && stalled < 150 {
                // somebody waits for a simulated I/O latency: time has to pass, nothing is stuck yet
                // (150 doubling steps cover more than two simulated minutes)
                STORM_STALL.with(|s| s.set((last, stalled + 1)));
            } else if stalled + 1 >= 200 {
                STORM_STALL.with(|s| s.set((progress, 0)));
                world.hung_flag.set(true);
                world.kill_notify.notify_one();
            } else {
                STORM_STALL.with(|s| s.set((last, stalled + 1)));
            }
        }
    } else {
        STORM.with(|s| s.set((last_ms, n + 1)));
    }
}

pub fn tagged<F: Future>(world: &Rc<World>, tag: Option<Tag>, fut: F) -> Tagged<F> {
    Tagged { world: world.clone(), tag, first: true, fut: Box::pin(fut) }
}

/// Poll `fut` at most `k` times (each time it is woken), then drop it. Returns Some(output)
/// if it completed within `k` polls.
pub async fn poll_k_then_drop<F: Future>(fut: F, k: u32) -> (Option<F::Output>, u32) {
    let mut fut = Box::pin(fut);
    let mut polls = 0u32;
    let out = std::future::poll_fn(|cx| {
        if polls >= k {
            return Poll::Ready(None);
        }
        polls += 1;
        match fut.as_mut().poll(cx) {
            Poll::Ready(v) => Poll::Ready(Some(v)),
            Poll::Pending => {
                if polls >= k {
                    Poll::Ready(None)
                } else {
                    Poll::Pending
                }
            }
        }
    })
    .await;
    drop(fut);
    (out, polls)
}

// ------------------------------------------------------------------------------------------
// panic capture (per thread)

thread_local! {
    pub static PANICS: RefCell<Vec<String>> = RefCell::new(Vec::new());
    pub static CAPTURE_PANICS: std::cell::Cell<bool> = std::cell::Cell::new(false);
}

pub fn install_panic_hook() {
    static ONCE: std::sync::Once = std::sync::Once::new();
    ONCE.call_once(|| {
        let prev = std::panic::take_hook();
        std::panic::set_hook(Box::new(move |info| {
            let capture = CAPTURE_PANICS.with(|c| c.get());
            if capture {
                let msg = if let Some(s) = info.payload().downcast_ref::<&str>() {
                    s.to_string()
                } else if let Some(s) = info.payload().downcast_ref::<String>() {
                    s.clone()
                } else {
                    "panic".to_string()
                };
                let loc = info.location().map(|l| format!("{}:{}", l.file(), l.line())).unwrap_or_default();
                PANICS.with(|p| p.borrow_mut().push(format!("{} @ {}", msg, loc)));
            } else {
                prev(info);
            }
        }));
    });
}

// ------------------------------------------------------------------------------------------
// results of client operations (history)

#[derive(Clone, Debug, PartialEq)]
pub enum OpResult {
    Ok,
    OkCount(u64),
    /// classification + identity of the returned record
    Read { class: &'static str, data_hash: u64, len: usize, ts: u64 },
    List(Vec<(bool, u64)>),
    Filter(Option<bool>),
    Err(String),
    Cancelled { polls: u32 },
    Skipped,
}

#[derive(Clone, Debug)]
pub struct HistEntry {
    pub client: u32,
    pub uid: u32,
    pub kind: OpKind,
    pub invoke: u64,
    pub ret: u64,
    pub result: OpResult,
    pub session: usize,
}

// ------------------------------------------------------------------------------------------

#[derive(Clone, Debug, Default)]
pub struct RunOpts {
    pub keep_trace: bool,
    pub scratch_root: Option<PathBuf>,
}

pub struct RunOutcome {
    pub violations: Vec<Violation>,
    pub sig: u64,
    pub events: u64,
    pub sim_ms: u64,
    pub probes: Counters,
    pub fired: Counters,
    pub panics: Vec<String>,
    pub history: Vec<HistEntry>,
    pub trace_sample: Vec<String>,
    pub state_hash: u64,
    pub fault_log: Vec<String>,
    pub mut_events_per_session: Vec<u64>,
    pub sweep_hit: Option<(u32, Vec<AtRest>)>,
}

pub struct RunCtx {
    pub world: Rc<World>,
    pub plan: Rc<Plan>,
    pub dir: PathBuf,
    pub key_len: usize,
    pub history: RefCell<Vec<HistEntry>>,
    /// model side: does the storage currently have an active blob (None = unknown)
    /// the session's close() must not be preceded by settling (OpKind::QuietTail)
    pub quiet_close: Cell<bool>,
    pub active_known: RefCell<Option<bool>>,
    /// ids of blobs not attached to the storage although present in the work dir
    pub ignored: RefCell<BTreeSet<usize>>,
    /// ops whose effect is indeterminate (returned Err / cancelled / in flight at a crash)
    pub indeterminate: RefCell<BTreeSet<u32>>,
    /// saved older copies of index files (for the `IndexStale` damage)
    pub saved_indexes: RefCell<BTreeMap<usize, Vec<u8>>>,
    pub violations: RefCell<Vec<Violation>>,
    pub mut_events_per_session: RefCell<Vec<u64>>,
    pub state_hash: std::cell::Cell<u64>,
    /// number of maintenance ops whose precondition held and which returned Ok
    pub last_step_note: RefCell<String>,
    /// records damaged at rest by the harness: (blob, record offset, byte class)
    pub damaged: RefCell<Vec<(usize, u64, ByteClass)>>,
    /// physical records as they were just before the last crash
    pub pre_crash_phys: RefCell<BTreeMap<usize, Vec<PhysRec>>>,
    pub cancelled: RefCell<BTreeSet<u32>>,
    pub active_at_close: std::cell::Cell<Option<usize>>,
    pub order_anomaly_reported: std::cell::Cell<bool>,
    pub aborted: std::cell::Cell<bool>,
    pub partial_reported: std::cell::Cell<bool>,
    pub crashed: std::cell::Cell<bool>,
    /// deletion markers appended to blobs that were closed at that moment: (blob, offset)
    pub closed_writes: RefCell<BTreeSet<(usize, u64)>>,
    /// first failing point of a sweep operation: (op uid, equivalent explicit damage)
    pub sweep_hit: RefCell<Option<(u32, Vec<AtRest>)>>,
    /// physically complete records that may or may not be visible: (blob, offset)
    pub optional_records: RefCell<BTreeSet<(usize, u64)>>,
    /// complete records of operations that returned an error under an injected fault: must stay invisible
    pub forbidden_records: RefCell<BTreeSet<(usize, u64)>>,
    pub crash_victims: RefCell<BTreeSet<usize>>,
    /// blobs that were part of the storage when the last close began
    pub served_at_close: RefCell<BTreeSet<usize>>,
    /// number of in-session reopenings so far
    pub reopen_count: std::cell::Cell<u32>,
    /// a force_update_active_blob request was issued since the storage was (re)opened
    pub force_update_since_open: std::cell::Cell<bool>,
    /// a background lifecycle request (close / create / restore / force update) was issued in this
    /// run: observations of which blob is active may be stale by the time an operation runs (the
    /// worker can sit on a request for several quiet milliseconds)
    pub bg_lifecycle_pending: std::cell::Cell<bool>,
    /// keys whose answers differed from the model in the last full comparison, with the record counts at that moment
    pub mismatch_keys_last: RefCell<(BTreeSet<u8>, Vec<(usize, usize)>)>,
    /// the same, frozen when a clean close began (None: records were appended since the comparison)
    pub mismatch_before_close: RefCell<Option<BTreeSet<u8>>>,
    pub acked_before_crash: RefCell<BTreeSet<u32>>,
    pub quarantined_before: RefCell<BTreeSet<usize>>,
    pub scratch_counter: std::cell::Cell<u32>,
    pub scratch_dirs: RefCell<Vec<PathBuf>>,
    /// blobs whose index was loaded into memory by init (the active blob of an eager init)
    pub loaded_at_init: RefCell<BTreeMap<usize, u64>>,
}

impl RunCtx {
    pub fn violate(&self, props: &[&str], rule: &str, cause: impl Into<String>, detail: impl Into<String>) {
        // after the kill instant the process no longer exists: nothing it "observes" counts
        if self.world.is_dead() {
            return;
        }
        let cause = cause.into();
        let detail = detail.into();
        let seq = self.world.seq();
        let mut v = Violation::new(&props.join(","), rule, cause, detail);
        v.event_seq = seq;
        self.violations.borrow_mut().push(v);
    }

    /// A verdict of the harness itself about the state left on disk (made after the kill instant).
    pub fn violate_post_mortem(&self, props: &[&str], rule: &str, cause: impl Into<String>, detail: impl Into<String>) {
        let mut v = Violation::new(&props.join(","), rule, cause.into(), detail.into());
        v.event_seq = self.world.seq();
        self.violations.borrow_mut().push(v);
    }

    pub fn attached(&self) -> BTreeSet<usize> {
        let w = self.world.inner.borrow();
        let ignored = self.ignored.borrow();
        let mut s = BTreeSet::new();
        for (name, sh) in w.shadows.iter() {
            if let FileKind::Blob(id) = classify(name) {
                if !name.contains('/') && !sh.quarantined && !sh.removed && !ignored.contains(&id) {
                    s.insert(id);
                }
            }
        }
        s
    }

    /// blob files present in the work dir (not quarantined / removed), whether attached or not
    pub fn attached_ignoring_ignored(&self) -> BTreeSet<usize> {
        let w = self.world.inner.borrow();
        let mut s = BTreeSet::new();
        for (name, sh) in w.shadows.iter() {
            if let FileKind::Blob(id) = classify(name) {
                if !name.contains('/') && !sh.quarantined && !sh.removed {
                    s.insert(id);
                }
            }
        }
        s
    }

    pub fn phys_lens(&self) -> BTreeMap<usize, usize> {
        self.world.inner.borrow().phys.iter().map(|(k, v)| (*k, v.len())).collect()
    }

    pub fn new_records_since(&self, lens: &BTreeMap<usize, usize>) -> Vec<PhysRec> {
        let w = self.world.inner.borrow();
        let mut out = Vec::new();
        for (b, v) in w.phys.iter() {
            let from = lens.get(b).copied().unwrap_or(0);
            for r in v.iter().skip(from) {
                out.push(r.clone());
            }
        }
        out
    }
}

pub fn run_plan(plan: &Plan, opts: &RunOpts) -> RunOutcome {
    match plan.store.key_len {
        1 => run_plan_k::<ArrayKey<1>>(plan, opts),
        8 => run_plan_k::<ArrayKey<8>>(plan, opts),
        37 => run_plan_k::<ArrayKey<37>>(plan, opts),
        200 => run_plan_k::<ArrayKey<200>>(plan, opts),
        n => panic!("unsupported key length {}", n),
    }
}

thread_local! {
    static RUN_COUNTER: std::cell::Cell<u64> = std::cell::Cell::new(0);
}

fn scratch_dir(opts: &RunOpts) -> PathBuf {
    let root = opts.scratch_root.clone().unwrap_or_else(|| PathBuf::from("/dev/shm/pearl-sim"));
    let n = RUN_COUNTER.with(|c| {
        let v = c.get();
        c.set(v + 1);
        v
    });
    let tid = format!("{:?}", std::thread::current().id()).replace(|c: char| !c.is_ascii_digit(), "");
    root.join(format!("{}", std::process::id())).join(format!("w{}", tid)).join(format!("r{}", n))
}

pub fn build_storage<K>(store: &StoreCfg, sess: &SessionPlan, dir: &Path) -> Storage<K>
where
    for<'a> K: Key<'a> + AsRef<K> + 'static,
{
    let mut b = Builder::new()
        .work_dir(dir)
        .blob_file_name_prefix(PREFIX)
        .max_blob_size(store.max_blob_size)
        .max_data_in_blob(store.max_data_in_blob)
        .corrupted_dir_name(CORRUPTED)
        .set_bloom_filter_group_size(store.group_size)
        .set_deferred_index_dump_times(Duration::from_millis(store.deferred_min_ms), Duration::from_millis(store.deferred_max_ms))
        .set_max_dirty_bytes_before_sync(store.max_dirty)
        .set_validate_data_during_index_regen(sess.validate_data.unwrap_or(store.validate_data));
    if store.allow_duplicates {
        b = b.allow_duplicates();
    }
    if sess.ignore_corrupted.unwrap_or(store.ignore_corrupted) {
        b = b.ignore_corrupted();
    }
    let alt = if sess.bloom_use_alt { sess.bloom_alt.as_ref() } else { None };
    let bloom_off = sess.bloom_use_alt && sess.bloom_alt_off;
    if let Some(bl) = alt.or(store.bloom.as_ref()).filter(|_| !bloom_off) {
        b = b.set_filter_config(BloomConfig {
            elements: bl.elements,
            hashers_count: bl.hashers,
            max_buf_bits_count: bl.max_bits,
            buf_increase_step: 8196,
            preferred_false_positive_rate: bl.fpr_milli as f64 / 1000.0,
        });
    }
    b.build().expect("builder")
}

fn run_plan_k<K>(plan: &Plan, opts: &RunOpts) -> RunOutcome
where
    for<'a> K: Key<'a> + AsRef<K> + 'static,
{
    install_panic_hook();
    RUN_STARTED.with(|r| r.set(Some(std::time::Instant::now())));
    PANICS.with(|p| p.borrow_mut().clear());
    CAPTURE_PANICS.with(|c| c.set(true));
    let dir = scratch_dir(opts);
    let _ = std::fs::remove_dir_all(&dir);
    std::fs::create_dir_all(&dir).expect("scratch dir");
    let track_durable = plan.sessions.iter().any(|s| matches!(s.end, SessionEnd::PowerLoss(_)));
    let world = World::new(dir.clone(), plan.store.key_len as usize, plan.sched.clone(), track_durable, opts.keep_trace || crate::oracle::needs_trace(plan));
    world.install();
    let ctx = Rc::new(RunCtx {
        world: world.clone(),
        plan: Rc::new(plan.clone()),
        dir: dir.clone(),
        key_len: plan.store.key_len as usize,
        history: RefCell::new(Vec::new()),
        active_known: RefCell::new(None),
        quiet_close: Cell::new(false),
        ignored: RefCell::new(BTreeSet::new()),
        indeterminate: RefCell::new(BTreeSet::new()),
        saved_indexes: RefCell::new(BTreeMap::new()),
        violations: RefCell::new(Vec::new()),
        mut_events_per_session: RefCell::new(Vec::new()),
        state_hash: std::cell::Cell::new(0),
        last_step_note: RefCell::new(String::new()),
        damaged: RefCell::new(Vec::new()),
        pre_crash_phys: RefCell::new(BTreeMap::new()),
        cancelled: RefCell::new(BTreeSet::new()),
        active_at_close: std::cell::Cell::new(None),
        order_anomaly_reported: std::cell::Cell::new(false),
        aborted: std::cell::Cell::new(false),
        partial_reported: std::cell::Cell::new(false),
        crashed: std::cell::Cell::new(false),
        closed_writes: RefCell::new(BTreeSet::new()),
        sweep_hit: RefCell::new(None),
        optional_records: RefCell::new(BTreeSet::new()),
        forbidden_records: RefCell::new(BTreeSet::new()),
        crash_victims: RefCell::new(BTreeSet::new()),
        served_at_close: RefCell::new(BTreeSet::new()),
        reopen_count: std::cell::Cell::new(0),
        force_update_since_open: std::cell::Cell::new(false),
        bg_lifecycle_pending: std::cell::Cell::new(false),
        mismatch_keys_last: RefCell::new((BTreeSet::new(), Vec::new())),
        mismatch_before_close: RefCell::new(None),
        acked_before_crash: RefCell::new(BTreeSet::new()),
        quarantined_before: RefCell::new(BTreeSet::new()),
        scratch_counter: std::cell::Cell::new(0),
        scratch_dirs: RefCell::new(Vec::new()),
        loaded_at_init: RefCell::new(BTreeMap::new()),
    });

    let mut total_sim_ms = 0u64;
    for si in 0..plan.sessions.len() {
        let sess = &plan.sessions[si];
        crate::faults::apply_at_rest(&ctx, &sess.pre);
        let rt = tokio::runtime::Builder::new_current_thread().enable_time().start_paused(true).build().expect("runtime");
        let local = tokio::task::LocalSet::new();
        let c2 = ctx.clone();
        let outcome = match std::panic::catch_unwind(std::panic::AssertUnwindSafe(|| local.block_on(&rt, async move {
            // watchdog: with the paused clock this timer fires only when no task is runnable and no
            // other timer is pending, i.e. when everything waits for something that cannot happen
            tokio::select! {
                biased;
                o = crate::session::session_main::<K>(c2, si) => o,
                _ = tokio::time::sleep(std::time::Duration::from_secs(60 * 24 * 3600)) => crate::session::SessionOutcome::Hung("watchdog".into()),
            }
        }))) {
            Ok(o) => o,
            Err(_) => {
                let msg = PANICS.with(|p| p.borrow().last().cloned()).unwrap_or_default();
                let canonical: String = msg.split(" @ ").next().unwrap_or("").chars().take(100).collect();
                let loc: String = msg.split(" @ ").nth(1).unwrap_or("").to_string();
                ctx.violate(&["C03", "C06", "C11", "C13", "C14", "C05"], "api-panic", format!("a storage call panicked: {} ({})", canonical, loc.split('/').last().unwrap_or("")), format!("session {}: {}; {}", si, msg, ctx.last_step_note.borrow()));
                ctx.aborted.set(true);
                crate::session::SessionOutcome::Dropped
            }
        };
        // dropping the LocalSet and the runtime discards every task, lock and pending simulated job
        drop(local);
        drop(rt);
        ctx.mut_events_per_session.borrow_mut().push(world.inner.borrow().mut_seq);
        world.end_session();
        total_sim_ms = world.sim_ms();
        crate::session::after_session(&ctx, si, outcome);
        if plan.profile.starts_with("tools") && si == 0 && !ctx.aborted.get() {
            // the offline tools run on this thread, outside the simulated runtime: a panic inside a
            // tool is a verdict about the tool, not a reason to lose the batch worker
            if std::panic::catch_unwind(std::panic::AssertUnwindSafe(|| crate::tools_phase::run::<K>(&ctx))).is_err() {
                let msg = PANICS.with(|p| p.borrow().last().cloned()).unwrap_or_default();
                let canonical: String = msg.split(" @ ").next().unwrap_or("").chars().take(100).collect();
                ctx.violate_post_mortem(&["C16"], "tool-panic", format!("an offline tool panicked: {}", canonical), format!("{}; {}", msg, ctx.last_step_note.borrow()));
            }
        }
        if ctx.violations.borrow().len() > 20 || ctx.aborted.get() {
            break;
        }
    }
    // world-level monitors
    crate::oracle::post_run(&ctx);

    World::uninstall();
    CAPTURE_PANICS.with(|c| c.set(false));
    let panics = PANICS.with(|p| p.borrow().clone());
    let mut violations = ctx.violations.borrow().clone();
    {
        let w = world.inner.borrow();
        let extra = match plan.profile.split('+').next().unwrap_or("") {
            p if p.starts_with("cancel") => Some("C14"),
            p if p.starts_with("conc") => Some("C08"),
            p if p.starts_with("iofault") => Some("C11"),
            p if p.starts_with("crash") => Some("C06"),
            _ => None,
        };
        for v in w.violations.iter() {
            let mut v = v.clone();
            // overlapping records are also what C08 ("records never overlap"), C14 and C11 forbid
            if v.rule == "C07.append-only" {
                if let Some(e) = extra {
                    v.property = format!("{},{}", v.property, e);
                }
            }
            violations.push(v);
        }
    }
    let w = world.inner.borrow();
    let trace_sample: Vec<String> = w.trace.iter().take(if std::env::var("FULL_TRACE").is_ok() { usize::MAX } else { 40 }).map(|e| format!("#{} t={}ms {} {} off={} len={} res={} tag={:?}", e.seq, e.t_ms, e.kind, e.file, e.offset, e.len, e.res, e.tag.map(|t| (t.client, t.uid)))).collect();
    let out = RunOutcome {
        violations,
        sig: mix_all(&[w.sig, w.reads]),
        events: w.seq,
        sim_ms: total_sim_ms,
        probes: w.probes.clone(),
        fired: w.fired.clone(),
        panics,
        history: ctx.history.borrow().clone(),
        trace_sample,
        state_hash: ctx.state_hash.get(),
        fault_log: w.fault_log.clone(),
        mut_events_per_session: ctx.mut_events_per_session.borrow().clone(),
        sweep_hit: ctx.sweep_hit.borrow().clone(),
    };
    drop(w);
    let _ = std::fs::remove_dir_all(&dir);
    for d in ctx.scratch_dirs.borrow().iter() {
        let _ = std::fs::remove_dir_all(d);
    }
    out
}

// ------------------------------------------------------------------------------------------
// conversions of pearl results

pub fn hash_data(b: &[u8]) -> u64 {
    crate::rng::hash_bytes(b)
}

pub fn read_to_result(r: &anyhow::Result<ReadResult<Bytes>>) -> OpResult {
    match r {
        Ok(ReadResult::Found(b)) => OpResult::Read { class: "Found", data_hash: hash_data(b), len: b.len(), ts: 0 },
        Ok(ReadResult::Deleted(ts)) => OpResult::Read { class: "Deleted", data_hash: 0, len: 0, ts: (*ts).into() },
        Ok(ReadResult::NotFound) => OpResult::Read { class: "NotFound", data_hash: 0, len: 0, ts: 0 },
        Err(e) => OpResult::Err(err_kind(e)),
    }
}

/// canonical short description of a pearl error (stable across seeds)
pub fn err_kind(e: &anyhow::Error) -> String {
    use pearl::error::AsPearlError;
    if let Some(pe) = e.as_pearl_error() {
        let k = format!("{:?}", pe.kind());
        // strip payloads
        let head: String = k.chars().take_while(|c| c.is_alphanumeric()).collect();
        if let pearl::ErrorKind::Index(s) = pe.kind() {
            return format!("Index({})", s);
        }
        if let pearl::ErrorKind::Validation { kind, .. } = pe.kind() {
            return format!("Validation({:?})", kind);
        }
        return head;
    }
    for c in e.chain() {
        if let Some(pe) = c.downcast_ref::<pearl::Error>() {
            let k = format!("{:?}", pe.kind());
            if let pearl::ErrorKind::Index(s) = pe.kind() {
                return format!("Index({})", s);
            }
            if let pearl::ErrorKind::Validation { kind, .. } = pe.kind() {
                return format!("Validation({:?})", kind);
            }
            return k.chars().take_while(|c| c.is_alphanumeric()).collect();
        }
        if let Some(io) = c.downcast_ref::<std::io::Error>() {
            return format!("Io({:?})", io.kind());
        }
    }
    "Other".to_string()
}

pub fn describe_mread(m: &MRead) -> String {
    match m {
        MRead::Found(r) => format!("Found(blob {} off {} ts {} data {})", r.blob, r.offset, r.ts, short(&r.data)),
        MRead::Deleted(ts) => format!("Deleted({})", ts),
        MRead::NotFound => "NotFound".to_string(),
    }
}

pub fn describe_read(r: &anyhow::Result<ReadResult<Bytes>>) -> String {
    match r {
        Ok(ReadResult::Found(b)) => format!("Found({})", short(b)),
        Ok(ReadResult::Deleted(ts)) => format!("Deleted({})", ts),
        Ok(ReadResult::NotFound) => "NotFound".to_string(),
        Err(e) => format!("Err({})", err_kind(e)),
    }
}

// ------------------------------------------------------------------------------------------
// the storage handle used by drivers

pub struct Handle<K>
where
    for<'a> K: Key<'a> + AsRef<K> + 'static,
{
    pub storage: Storage<K>,
}

pub fn k<K>(ctx: &RunCtx, idx: u8) -> K
where
    for<'a> K: Key<'a> + AsRef<K> + 'static,
{
    K::from(key_bytes(idx, ctx.key_len))
}

pub use crate::queries::check_all_queries;

pub fn class_of_read<T>(r: &ReadResult<T>) -> &'static str {
    match r {
        ReadResult::Found(_) => "Found",
        ReadResult::Deleted(_) => "Deleted",
        ReadResult::NotFound => "NotFound",
    }
}

//! C12: sync discipline evaluated over the ordered I/O trace.

use crate::exec::*;
use std::rc::Rc;

pub fn check_trace(_ctx: &Rc<RunCtx>) {}

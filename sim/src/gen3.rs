//! Generators of the concurrency (C08), liveness (C13) and tools (C16) profiles.

use crate::gen::*;
use crate::plan::*;
use crate::rng::Rng;

/// N concurrent clients + a maintenance client over few keys, rotation every few records,
/// then a second concurrent phase on the reopened (append-mode) blobs, then a sequential check.
pub fn gen_conc(property: &str, profile: &str, seed: u64) -> Plan {
    let (mut plan, mut sw) = base_plan(property, profile, seed);
    let big = profile.contains("big");
    let burst = profile.contains("burst");
    plan.store.allow_duplicates = true;
    plan.store.max_data_in_blob = *sw.rng.pick(&[2u64, 3, 4, 5, 8, 16]);
    plan.store.max_blob_size = 1_000_000;
    plan.store.deferred_min_ms = *sw.rng.pick(&[100u64, 1_000, 60_000]);
    plan.store.deferred_max_ms = plan.store.deferred_min_ms * 3;
    plan.store.ignore_corrupted = false;
    plan.sched = swarm_sched(&mut sw.rng, true);
    plan.sched.buggify_mask = if sw.rng.chance(3, 4) { sw.rng.below(256) as u32 } else { 0 };
    plan.sched.channel_cap = *sw.rng.pick(&[1usize, 4, 64, 1024, 1024]);
    // a quarter of the runs: blocking closures on their own threads, interleaved at I/O-call granularity
    plan.sched.preempt_jobs = !big && !burst && sw.rng.chance(1, 4);
    if plan.sched.preempt_jobs {
        plan.sched.inplace_small = false;
    }
    // "+fsync": explicit fsyncdata calls issued by the clients themselves while writes keep crossing a tiny
    // dirty-byte limit, so that explicit syncs meet background syncs in flight; few rotations
    let fsync_mix = profile.split('+').any(|f| f == "fsync");
    if fsync_mix {
        plan.store.max_data_in_blob = *sw.rng.pick(&[16u64, 64, 64]);
        plan.store.max_dirty = *sw.rng.pick(&[1u64, 100, 200, 400]);
    }
    plan.n_keys = sw.rng.range(1, 6) as u8;
    sw.n_keys = plan.n_keys;
    plan.check_each_step = true; // only used by the sequential tail session
    let n_clients = if burst {
        plan.sched.channel_cap = *sw.rng.pick(&[1usize, 4, 16]);
        plan.sched.channel_cap + 3 + sw.rng.below(6) as usize
    } else if big {
        // many clients, larger blobs (the number of blobs drives the cost of every read and delete)
        plan.store.max_data_in_blob = *sw.rng.pick(&[8u64, 16, 32]);
        sw.rng.range(100, 400) as usize
    } else {
        sw.rng.range(2, 24) as usize
    };
    let mut sessions = Vec::new();
    let phases = if big || burst { 1 } else { sw.rng.range(1, 2) };
    for phase in 0..phases {
        let mut clients: Vec<Vec<Op>> = Vec::new();
        for _ in 0..n_clients {
            let n_ops = if big || burst { sw.rng.range(1, 3) } else { sw.rng.range(2, 14) } as usize;
            let mut ops = Vec::new();
            for _ in 0..n_ops {
                let uid = sw.uid();
                let think_ms = if burst { 0 } else { *sw.rng.pick(&[0u64, 0, 0, 1, 2, 5, 50, 250]) };
                let key = sw.key();
                let kind = match sw.rng.below(100) {
                    0..=44 => OpKind::Write { key, ts: sw.ts(), len: sw.rng.range(16, 48) as u32, meta: None },
                    45..=64 if fsync_mix => OpKind::Fsync,
                    45..=64 => OpKind::Read { key },
                    65..=74 => OpKind::Contains { key },
                    75..=89 => OpKind::Delete { key, ts: sw.ts(), meta: None, only_if_presented: sw.rng.chance(1, 2) },
                    90..=94 => OpKind::ReadAll { key },
                    _ => OpKind::ReadAllDel { key },
                };
                let kind = if burst { OpKind::Write { key, ts: sw.ts(), len: 24, meta: None } } else { kind };
                ops.push(Op { uid, think_ms, kind });
            }
            clients.push(ops);
        }
        if !burst {
            // maintenance client
            let mut ops = Vec::new();
            for _ in 0..sw.rng.range(1, 10) {
                let uid = sw.uid();
                let think_ms = *sw.rng.pick(&[0u64, 1, 5, 100, 300]);
                let kind = match if fsync_mix { 5 + sw.rng.below(5) } else { sw.rng.below(10) } {
                    0 | 1 => OpKind::TryClose,
                    2 | 3 => OpKind::TryRestore,
                    4 => OpKind::TryCreate,
                    5 => OpKind::Fsync,
                    6 => OpKind::FreeExcess,
                    7 => OpKind::CloseBg,
                    _ => OpKind::Idle { ms: *sw.rng.pick(&[1u64, 250, 1_000]) },
                };
                ops.push(Op { uid, think_ms, kind });
            }
            clients.push(ops);
        }
        let mut s = SessionPlan { lazy_init: phase == 0 && sw.rng.chance(1, 6), pre: vec![], clients, end: SessionEnd::Close, validate_data: None, ignore_corrupted: None, bloom_alt: None, bloom_use_alt: false, bloom_alt_off: false };
        if burst {
            // the active blob is brought to its limit and aged past the debounce by a prologue client
            let mut pro = Vec::new();
            for _ in 0..plan.store.max_data_in_blob {
                let uid = sw.uid();
                pro.push(Op { uid, think_ms: 0, kind: OpKind::Write { key: 0, ts: sw.ts(), len: 24, meta: None } });
            }
            for c in s.clients.iter_mut() {
                if let Some(first) = c.first_mut() {
                    first.think_ms = 400;
                }
            }
            s.clients.insert(0, pro);
        }
        sessions.push(s);
    }
    // sequential tail: restart, full comparison, a few operations, then a restart with index files
    // removed (the regenerated index must agree with the one built while the clients ran)
    let mut ops = Vec::new();
    let uid = sw.uid();
    // C03 runs: every index file is removed (each removal takes the first blob that still has one),
    // so every index built in memory by the concurrent writers is replaced by a regenerated one
    let damage = if property == "C03" { vec![AtRest::IndexRemove { blob: 0 }; 12] } else { vec![AtRest::IndexRemove { blob: sw.rng.below(8) as usize }, AtRest::IndexRemove { blob: sw.rng.below(8) as usize }] };
    ops.push(Op { uid, think_ms: 0, kind: OpKind::Restart { lazy: sw.rng.chance(1, 2), damage } });
    for _ in 0..sw.rng.range(1, 4) {
        ops.push(gen_op(&mut sw, &MIX_DATA_NO_RESTART, plan.store.key_len));
    }
    sessions.push(SessionPlan::sequential(ops));
    plan.sessions = sessions;
    plan
}

pub const MIX_DATA_NO_RESTART: Mix = Mix { write: 55, delete: 25, idle: 5, lifecycle: 0, lifecycle_bg: 0, force: 0, free: 0, offload: 0, fsync: 0, restart: 0, clock: 0 };

/// Arbitrary sequences of public calls in every active-blob state, then overflow, idle, close (C13).
pub fn gen_live(property: &str, profile: &str, seed: u64) -> Plan {
    let (mut plan, mut sw) = base_plan(property, &format!("{}+nonapplicable_bg", profile), seed);
    plan.store.max_data_in_blob = *sw.rng.pick(&[2u64, 3, 4, 6, 10]);
    plan.store.max_blob_size = *sw.rng.pick(&[400u64, 1_000_000, 1_000_000]);
    let (dmin, dmax) = *sw.rng.pick(&[(60_000u64, 180_000u64), (1_000, 3_000), (100, 300), (5_000, 5_000)]);
    plan.store.deferred_min_ms = dmin;
    plan.store.deferred_max_ms = dmax;
    // liveness is only promised once faults have stopped: no stalls
    if let Latency::HeavyTail { .. } = plan.sched.latency {
        plan.sched.latency = Latency::Uniform(2);
    }
    if profile.split('+').any(|f| f == "slowdump") {
        // a steadily slow disk (no stall: every file operation takes 0..80 simulated ms) and small blobs: one
        // deferred dump pass covers several closed blobs and outlasts the 200 ms dump quantum several times
        plan.sched.latency = Latency::Uniform(80);
        plan.store.max_data_in_blob = *sw.rng.pick(&[1u64, 2, 2, 3]);
        plan.store.max_blob_size = 1_000_000;
    }
    let mix = Mix { write: 30, delete: 14, idle: 10, lifecycle: 8, lifecycle_bg: 16, force: 8, free: 3, offload: 3, fsync: 3, restart: 0, clock: 4 };
    let n = sw.rng.range(4, 32) as usize;
    let mut ops = Vec::new();
    for _ in 0..n {
        let mut op = gen_op(&mut sw, &mix, plan.store.key_len);
        // idle periods shorter than the deferral so that deferred dumps overlap with later requests
        if let OpKind::Idle { ms } = &mut op.kind {
            *ms = *sw.rng.pick(&[1u64, 50, 250, dmin / 2 + 1, dmin + 1, dmax + 1_000]);
        }
        ops.push(op);
    }
    let uid = sw.uid();
    ops.push(Op { uid, think_ms: 0, kind: OpKind::OverflowProbe { max_writes: 60, gap_ms: 300 } });
    let uid = sw.uid();
    ops.push(Op { uid, think_ms: 0, kind: OpKind::Idle { ms: dmax + 1_500 } });
    let uid = sw.uid();
    ops.push(Op { uid, think_ms: 0, kind: OpKind::CheckDumped });
    if profile.split('+').any(|f| f == "closerace") {
        // close() is otherwise only ever called on an idle storage with an active blob. Epilogue: a few
        // writes, the active blob closed (by the call or by a background request), background requests that
        // can or cannot apply still queued, an index dump in flight - and close() at once
        let uid = sw.uid();
        ops.push(Op { uid, think_ms: 0, kind: OpKind::QuietTail });
        for _ in 0..sw.rng.range(0, 6) {
            let uid = sw.uid();
            let key = sw.key();
            ops.push(Op { uid, think_ms: 0, kind: OpKind::Write { key, ts: sw.ts(), len: 24, meta: None } });
        }
        for _ in 0..sw.rng.range(1, 4) {
            let uid = sw.uid();
            let kind = match sw.rng.below(6) {
                0 | 1 => OpKind::TryClose,
                2 => OpKind::CloseBg,
                3 => OpKind::CreateBg,
                4 => OpKind::RestoreBg,
                _ => OpKind::ForceUpdate(Pred::Always),
            };
            ops.push(Op { uid, think_ms: *sw.rng.pick(&[0u64, 0, 1, 3]), kind });
        }
    }
    plan.sessions = vec![SessionPlan::sequential(ops)];
    plan.sessions[0].lazy_init = sw.rng.chance(1, 4);
    plan
}

/// Blobs and indexes produced by a history, then handed to the offline tools (C16).
pub fn gen_tools(property: &str, profile: &str, seed: u64) -> Plan {
    let (mut plan, mut sw) = base_plan(property, profile, seed);
    plan.store.key_len = 8; // read_index supports key sizes 4,8,16,32,64,128 only
    // two-entry metas serialise in HashMap order (differs between processes): not replayable under byte flips
    plan.n_metas = plan.n_metas.min(2);
    sw.n_metas = plan.n_metas;
    plan.store.max_data_in_blob = *sw.rng.pick(&[3u64, 5, 8, 20]);
    plan.store.deferred_min_ms = 100;
    plan.store.deferred_max_ms = 300;
    sw.big_values = sw.rng.chance(1, 5);
    let mix = Mix { write: 60, delete: 20, idle: 8, lifecycle: 0, lifecycle_bg: 0, force: 0, free: 0, offload: 0, fsync: 0, restart: 2, clock: 0 };
    let n = sw.rng.range(3, 24) as usize;
    let mut ops = Vec::new();
    for _ in 0..n {
        ops.push(gen_op(&mut sw, &mix, plan.store.key_len));
    }
    plan.sessions = vec![SessionPlan::sequential(ops)];
    plan
}

pub fn tools_rng(plan: &Plan) -> Rng {
    Rng::new(plan.seed ^ 0x7001)
}

pub fn gen_plan3(property: &str, profile: &str, seed: u64) -> Plan {
    let base = profile.split('+').next().unwrap_or(profile);
    if base.starts_with("conc") {
        gen_conc(property, profile, seed)
    } else if base.starts_with("live") {
        gen_live(property, profile, seed)
    } else if base.starts_with("tools") {
        gen_tools(property, profile, seed)
    } else {
        panic!("unknown profile {} for {} seed {}", profile, property, seed)
    }
}

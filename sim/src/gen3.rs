//! Generators of the concurrency, liveness and tool profiles.

use crate::plan::*;

pub fn gen_plan3(property: &str, profile: &str, seed: u64) -> Plan {
    panic!("unknown profile {} for {} seed {}", profile, property, seed)
}

//! Specs of the concurrency, liveness and tools checks.

use crate::batch::CheckSpec;

pub fn spec_for3(_property: &str) -> Option<CheckSpec> {
    None
}

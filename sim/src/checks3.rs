//! Specs of the concurrency, liveness and tools checks.

use crate::batch::{CheckSpec, ProfileSpec};
use crate::exec::RunOutcome;
use crate::plan::*;

fn p(name: &'static str, weight: u32) -> ProfileSpec {
    ProfileSpec { name, weight }
}

fn nt_conc(plan: &Plan, out: &RunOutcome) -> bool {
    // at least two clients, a read overlapped a write on its key, and a blob switch happened
    plan.sessions[0].clients.len() >= 2 && out.probes.get("reads_overlapping_a_write") >= 1 && out.probes.get("index_marked_complete") >= 1
}

fn nt_live(_plan: &Plan, out: &RunOutcome) -> bool {
    out.probes.get("probe_rotated") + out.probes.get("probe_not_rotated") >= 1 && (out.probes.get("nonapplicable_bg_request") >= 1 || out.fired.get("clock_jump") >= 1 || out.probes.get("try_close_active_blob_ok") >= 1)
}

fn nt_tools(_plan: &Plan, out: &RunOutcome) -> bool {
    out.probes.get("tools_blob_examined") >= 1 && out.probes.get("tools_recovery_run") >= 3
}

const A_COMMON: [&str; 3] = [
    "interleaving granularity is the await point plus the buggify yield sites (incl. a yield before every storage-level and blob-level lock acquisition when enabled); two blocking closures never overlap inside their bodies",
    "sampling, not enumeration: a clean batch is evidence, not proof",
    "directory operations during init (read_dir, rename, create_dir, remove_file) are real tokio::fs calls, not faulted",
];

pub fn spec_for3(property: &str) -> Option<CheckSpec> {
    let mut a = A_COMMON.to_vec();
    Some(match property {
        "C08" => CheckSpec {
            property: "C08".into(),
            level: "exploration",
            profiles: vec![p("conc", 10), p("conc-burst", 2), p("conc-big", 1)],
            thorough_extra: vec![],
            quick_runs: 6_000,
            thorough_runs: 300_000,
            quick_budget_s: 90,
            thorough_budget_s: 600,
            nontrivial_rule: "N client tasks (2..24; conc-big 100..1200; conc-burst = channel capacity + 3.. released in one tick against a full, aged active blob) over <= 6 keys with unique values, plus a maintenance client (try_close/restore/create, fsync, free_excess, background close), rotation every few records, background dumps and syncs, both I/O modes, seeded latencies and stalls, buggify yields incl. before lock acquisitions, channel capacity in {1,4,64,1024}; a second concurrent phase runs on the reopened (append-mode) blobs; then restart and a sequential tail. Oracles: linearizability condition per completed read/contains (never older than every write acknowledged before it started, never a value not written to that key), exactly one complete record per acknowledged write, records contiguous and whole with embedded offset = physical offset, watchdog (no client pending when nothing is runnable for 4 simulated hours), model equality at quiescence and after restart. Non-trivial = >= 2 clients, at least one read overlapped a write to its key, and an index was dumped (blob switch); distinct = distinct I/O event signature",
            nontrivial: nt_conc,
            assumptions: a,
            expected_probes: vec!["reads_overlapping_a_write", "buggify_yield", "job_stall"],
        },
        "C13" => {
            a.push("liveness bounds are stated in simulated time and only after faults have stopped: no disk stalls in this profile; rotation within 60 probe writes (one every 300 simulated ms), index files present after idling deferred_max + 1.5 s, close() within 60 simulated seconds");
            CheckSpec {
                property: "C13".into(),
                level: "exploration",
                profiles: vec![p("live", 12), p("live+closerace", 4), p("live+slowdump", 3), p("conc-burst", 1), p("conc", 1)],
                thorough_extra: vec![],
                quick_runs: 12_000,
                thorough_runs: 400_000,
                quick_budget_s: 60,
                thorough_budget_s: 600,
                nontrivial_rule: "profile live+closerace: close() called at once behind writes, a close of the active blob and background requests (queued requests, dumps in flight, possibly no active blob); profile live+slowdump: steadily slow disk (0..80 ms per file operation), small blobs, one dump pass spans several 200 ms quanta. Otherwise: a share of concurrent runs (conc, conc-burst with the observer channel capacity knob): a wedge between clients and the worker (nothing runnable while operations are pending) counts as lost liveness. Otherwise seeded sequences of public calls in every active-blob state: all *_in_background requests whether or not they apply, force_update with three predicates, data operations, free_excess_resources, fsync, idle periods around the deferred-dump times, wall-clock jumps of +-1 s and +-1 h; then the overflow probe, an idle period longer than deferred_max, and close. Oracle: the active blob is switched within the probe, every closed blob with records has an up-to-date index file, close() returns within the bound, no task panics. Non-trivial = the probe ran after at least one non-applicable background request, clock jump or manual close; distinct = distinct I/O event signature",
                nontrivial: nt_live,
                assumptions: a,
                expected_probes: vec!["nonapplicable_bg_request", "probe_rotated", "clock_jump"],
            }
        }
        "C16" => CheckSpec {
            property: "C16".into(),
            level: "fault_enumeration",
            profiles: vec![p("tools", 1)],
            thorough_extra: vec![p("tools-full", 1)],
            quick_runs: 1_500,
            thorough_runs: 60_000,
            quick_budget_s: 75,
            thorough_budget_s: 600,
            nontrivial_rule: "blobs and index files produced by seeded simulated histories (rotation, deletes into closed blobs, restarts) are handed to the real tools outside the simulator: validate_blob / validate_index / read_index must accept them and read_index must list exactly the trace-derived headers; migrate_blob to the current version must be byte-identical; then per blob: truncation at sampled lengths plus structural boundaries (thorough tools-full: every length of blobs <= 3000 bytes) and one <= 32-bit burst per sampled (record, class in header/meta/data/blob magic): the validators must reject (except cuts at record boundaries and meta bytes, which no checksum covers), recovery_blob (validate_every in {0,1,2,3,1000}, skipping on/off) must produce a blob that validates, and a storage opened on it must serve every intact record before the damage (and after an isolated damaged record when skipping) with its original bytes. Non-trivial = at least one blob examined and >= 3 recovery runs; distinct = distinct I/O event signature of the producing history",
            nontrivial: nt_tools,
            assumptions: vec!["the tools are real code run outside the simulator on a plain thread; this property has no scheduling component and qualifies for the technique only through stored-byte faults and the storage-on-output oracle", "sampling, not enumeration of histories; damage positions are sampled per blob in the quick tier"],
            expected_probes: vec!["tools_recovery_run", "tool_truncation", "tool_flip_rec_header", "tool_flip_data"],
        },
        _ => return None,
    })
}

//! C16: the offline tools on blobs and indexes produced by a simulated history, undamaged and
//! with stored-byte faults applied at rest (truncation at each length, a <= 32-bit burst per
//! position class of each record). Runs between sessions, outside any runtime (the tools call
//! `block_on` themselves); the storage-on-output oracle runs in a small runtime of its own.

use crate::exec::*;
use crate::plan::*;
use crate::rng::Rng;
use crate::world::*;
use pearl::Key;
use std::future::Future;
use std::path::{Path, PathBuf};
use std::rc::Rc;

fn with_rt<F: Future>(f: F) -> F::Output {
    let rt = tokio::runtime::Builder::new_current_thread().enable_time().start_paused(true).build().expect("runtime");
    let local = tokio::task::LocalSet::new();
    let out = local.block_on(&rt, f);
    drop(local);
    drop(rt);
    out
}

struct Damage {
    what: String,
    /// byte offset where the damage starts
    at: u64,
    /// record hit (offset of the record), if any
    rec_off: Option<u64>,
    class: Option<ByteClass>,
    truncation: bool,
}

pub fn run<K>(ctx: &Rc<RunCtx>)
where
    for<'a> K: Key<'a> + AsRef<K> + 'static,
{
    let world = ctx.world.clone();
    let plan = ctx.plan.clone();
    let mut rng = Rng::new(plan.seed ^ 0x7001);
    let thorough = plan.profile.contains("full");
    let attached: Vec<usize> = ctx.attached().into_iter().collect();
    let phys = world.inner.borrow().phys.clone();
    let hl = record_header_len(ctx.key_len) as u64;
    for b in attached.iter() {
        let bname = format!("{}.{}.blob", PREFIX, b);
        let iname = format!("{}.{}.index", PREFIX, b);
        let bpath = ctx.dir.join(&bname);
        let ipath = ctx.dir.join(&iname);
        let content = match std::fs::read(&bpath) {
            Ok(c) => c,
            Err(_) => continue,
        };
        let recs: Vec<PhysRec> = phys.get(b).cloned().unwrap_or_default().into_iter().filter(|r| r.complete).collect();
        world.probe("tools_blob_examined");
        // ---------------- undamaged files are accepted and described exactly
        if let Err(e) = pearl::tools::validate_blob(&bpath) {
            ctx.violate(&["C16"], "valid-blob-rejected", "validate_blob rejects a blob file produced by the storage", format!("blob {}: {:#}", b, e));
        }
        let index_up_to_date = {
            let w = world.inner.borrow();
            let bl = w.shadows.get(&bname).map(|s| s.last_write_seq).unwrap_or(0);
            w.shadows.get(&iname).map(|s| !s.removed && s.syncs > 0 && s.last_write_seq > bl).unwrap_or(false)
        };
        if ipath.exists() && index_up_to_date {
            world.probe("tools_index_examined");
            if let Err(e) = pearl::tools::validate_index::<K>(&ipath) {
                ctx.violate(&["C16"], "valid-index-rejected", "validate_index rejects an index file produced by the storage", format!("blob {}: {:#}", b, e));
            }
            if ctx.key_len == 8 {
                match with_rt(pearl::tools::read_index(&ipath)) {
                    Err(e) => ctx.violate(&["C16"], "read-index-failed", "read_index fails on an index file produced by the storage", format!("blob {}: {:#}", b, e)),
                    Ok(map) => {
                        let mut got: Vec<(Vec<u8>, u64)> = map.iter().flat_map(|(k, v)| v.iter().map(move |h| (k.clone(), h.blob_offset()))).collect();
                        got.sort();
                        let mut exp: Vec<(Vec<u8>, u64)> = recs.iter().map(|r| (r.key.clone(), r.offset)).collect();
                        exp.sort();
                        // the index may be older than the blob (records appended after the dump)
                        let idx_shadow_newer = {
                            let w = world.inner.borrow();
                            let bl = w.shadows.get(&bname).map(|s| s.last_write_seq).unwrap_or(0);
                            let il = w.shadows.get(&iname).map(|s| s.last_write_seq).unwrap_or(0);
                            il > bl
                        };
                        if idx_shadow_newer && got != exp {
                            ctx.violate(&["C16"], "read-index-mismatch", "read_index reports other headers than the records present in the blob", format!("blob {} index lists {} headers, blob has {} records", b, got.len(), exp.len()));
                        }
                    }
                }
            }
        }
        // ---------------- migration to the current version preserves every record
        {
            let out_dir = crate::toolcheck::scratch_sibling(ctx, "migrated");
            let out = out_dir.join(&bname);
            let ve = *rng.pick(&[0usize, 1, 2, 5, 100]);
            match pearl::tools::migrate_blob(&bpath, &out, ve, 1) {
                Err(e) => ctx.violate(&["C16"], "migrate-failed", "migrate_blob fails on a blob file produced by the storage", format!("blob {} validate_every {}: {:#}", b, ve, e)),
                Ok(()) => {
                    // the meta map is re-serialised (entry order may differ): compare record by record
                    let got = std::fs::read(&out).unwrap_or_default();
                    let parsed = parse_blob(&got, ctx.key_len);
                    let same = parsed.len() == recs.len()
                        && parsed.iter().zip(recs.iter()).all(|(g, r)| g.offset == r.offset && g.key == r.key && g.ts == r.ts && g.deleted == r.deleted && g.data == r.data && g.meta_map() == r.meta_map() && g.blob_offset_field == g.offset);
                    if !same {
                        ctx.violate(&["C16"], "migrate-loses-records", "migrate_blob to the current version does not preserve every record", format!("blob {} validate_every {}: output has {} records in {} bytes, input {} records in {} bytes", b, ve, parsed.len(), got.len(), recs.len(), content.len()));
                    }
                }
            }
        }
        // ---------------- recovery of the intact blob keeps everything (every validate_every class)
        {
            let ve = *rng.pick(&[0usize, 1, 2, 3, 7, 1000]);
            check_recovery::<K>(ctx, &bname, &content, &recs, None, ve, rng.chance(1, 2));
        }
        if recs.is_empty() {
            continue;
        }
        // ---------------- damage: truncations
        let mut cuts: Vec<u64> = Vec::new();
        if thorough && content.len() <= 3000 {
            cuts.extend(0..content.len() as u64);
        } else {
            for _ in 0..6 {
                cuts.push(rng.below(content.len() as u64));
            }
            // structural boundaries of a random record
            let r = &recs[rng.below(recs.len() as u64) as usize];
            for c in [r.offset + 1, r.offset + hl - 1, r.offset + hl, r.offset + hl + r.meta_size, r.offset + r.total_len - 1, 1, 19, 20] {
                if c < content.len() as u64 {
                    cuts.push(c);
                }
            }
        }
        cuts.sort();
        cuts.dedup();
        for l in cuts {
            let mut c = content.clone();
            c.truncate(l as usize);
            let at_boundary = l == BLOB_HEADER_LEN as u64 || recs.iter().any(|r| r.offset + r.total_len == l);
            let dmg = Damage { what: format!("truncated at {}", l), at: l, rec_off: None, class: None, truncation: true };
            world.inner.borrow_mut().fired.bump("tool_truncation");
            check_damaged::<K>(ctx, &bname, &c, &recs, &dmg, at_boundary, &mut rng);
        }
        // ---------------- damage: one burst per position class of sampled records
        let n_flips = if thorough { recs.len().min(12) * 4 } else { 5 };
        for _ in 0..n_flips {
            let r = &recs[rng.below(recs.len() as u64) as usize];
            let class = *rng.pick(&[ByteClass::RecHeader, ByteClass::Data, ByteClass::Data, ByteClass::Meta, ByteClass::BlobHeader]);
            let (s, e) = match class {
                ByteClass::BlobHeader => (0u64, 8u64), // the magic bytes (version and flags are not validated by the tools)
                ByteClass::RecHeader => (r.offset, r.offset + hl),
                ByteClass::Meta => (r.offset + hl, r.offset + hl + r.meta_size),
                ByteClass::Data => (r.offset + hl + r.meta_size, r.offset + r.total_len),
            };
            if e <= s {
                continue;
            }
            let pos = s + rng.below(e - s);
            let mask: u32 = match rng.below(3) {
                0 => 1 << rng.below(8),
                1 => (rng.next() as u32) & 0xFFFF,
                _ => rng.next() as u32,
            };
            let mask = if mask == 0 { 1 } else { mask };
            let mut c = content.clone();
            let mb = mask.to_le_bytes();
            let mut changed = false;
            for i in 0..4u64 {
                if pos + i < e && mb[i as usize] != 0 {
                    c[(pos + i) as usize] ^= mb[i as usize];
                    changed = true;
                }
            }
            if !changed {
                c[pos as usize] ^= 1;
            }
            let dmg = Damage { what: format!("burst {:#x} at {} ({:?} of record at {})", mask, pos, class, r.offset), at: pos, rec_off: Some(r.offset), class: Some(class), truncation: false };
            world.inner.borrow_mut().fired.bump(match class {
                ByteClass::BlobHeader => "tool_flip_blob_header",
                ByteClass::RecHeader => "tool_flip_rec_header",
                ByteClass::Meta => "tool_flip_meta",
                ByteClass::Data => "tool_flip_data",
            });
            check_damaged::<K>(ctx, &bname, &c, &recs, &dmg, false, &mut rng);
        }
    }
}

fn write_scratch(ctx: &Rc<RunCtx>, tag: &str, name: &str, content: &[u8]) -> PathBuf {
    let d = crate::toolcheck::scratch_sibling(ctx, tag);
    let p = d.join(name);
    std::fs::write(&p, content).expect("scratch write");
    p
}

fn check_damaged<K>(ctx: &Rc<RunCtx>, bname: &str, damaged: &[u8], recs: &[PhysRec], dmg: &Damage, still_well_formed: bool, rng: &mut Rng)
where
    for<'a> K: Key<'a> + AsRef<K> + 'static,
{
    let input = write_scratch(ctx, "damaged", bname, damaged);
    // validators must reject (unless the damage leaves a well-formed file, or hits bytes no checksum covers)
    let must_reject = !still_well_formed && !matches!(dmg.class, Some(ByteClass::Meta));
    let v = pearl::tools::validate_blob(&input);
    if must_reject && v.is_ok() {
        let kind = if dmg.truncation { "truncated" } else { "corrupted" };
        ctx.violate(&["C16"], "damaged-blob-accepted", format!("validate_blob accepts a {} blob file", kind), format!("{}: {}", bname, dmg.what));
    }
    if still_well_formed && v.is_err() {
        ctx.violate(&["C16"], "valid-blob-rejected", "validate_blob rejects a blob cut exactly at a record boundary", format!("{}: {}", bname, dmg.what));
    }
    let ve = *rng.pick(&[0usize, 1, 2, 3, 1000]);
    let skip = rng.chance(1, 2);
    check_recovery::<K>(ctx, bname, damaged, recs, Some(dmg), ve, skip);
}

/// recovery_blob output validates, contains every intact record before the damage (and after an
/// isolated damaged record when skipping is requested), and a storage opened on it serves each
/// contained record with its original bytes.
fn check_recovery<K>(ctx: &Rc<RunCtx>, bname: &str, input_bytes: &[u8], recs: &[PhysRec], dmg: Option<&Damage>, validate_every: usize, skip: bool)
where
    for<'a> K: Key<'a> + AsRef<K> + 'static,
{
    let world = ctx.world.clone();
    let input = write_scratch(ctx, "recin", bname, input_bytes);
    let out_dir = crate::toolcheck::scratch_sibling(ctx, "recout");
    let output = out_dir.join(bname);
    let desc = format!("{} {} validate_every={} skip={}", bname, dmg.map(|d| d.what.clone()).unwrap_or_else(|| "undamaged".into()), validate_every, skip);
    world.probe("tools_recovery_run");
    let res = pearl::tools::recovery_blob(&input, &output, validate_every, skip);
    // which records must survive
    let (must, may): (Vec<PhysRec>, Vec<PhysRec>) = match dmg {
        None => (recs.to_vec(), vec![]),
        Some(d) => {
            let mut must = Vec::new();
            let mut may = Vec::new();
            for r in recs.iter() {
                let end = r.offset + r.total_len;
                if d.truncation {
                    if end <= d.at {
                        must.push(r.clone());
                    }
                } else if end <= d.at {
                    must.push(r.clone());
                } else if r.offset > d.at {
                    // after the damaged record: required only with skipping and an isolated damage in a record
                    // header or data (the reader can then find the next record)
                    let skippable = skip && matches!(d.class, Some(ByteClass::RecHeader) | Some(ByteClass::Data)) && d.rec_off.is_some();
                    if skippable {
                        must.push(r.clone());
                    } else {
                        may.push(r.clone());
                    }
                } else {
                    // the damaged record itself: with meta damage it may survive (no checksum covers meta)
                    if matches!(d.class, Some(ByteClass::Meta)) {
                        // no checksum covers meta: the record may survive, with its original data
                        may.push(r.clone());
                    }
                }
            }
            (must, may)
        }
    };
    // a flip in the framing fields of a record header (sizes, magic) cannot be skipped reliably
    let framing_hit = match dmg {
        Some(d) if !d.truncation && d.class == Some(ByteClass::RecHeader) => {
            let rel = d.at - d.rec_off.unwrap_or(0);
            let kl = ctx.key_len as u64;
            // magic + key length, or meta_size / data_size (the burst covers up to 4 bytes from `rel`)
            rel < 16 || (rel + 3 >= 16 + kl && rel < 16 + kl + 16)
        }
        _ => false,
    };
    let (must, may) = if framing_hit {
        let d = dmg.unwrap();
        let (m1, mut m2): (Vec<PhysRec>, Vec<PhysRec>) = must.into_iter().partition(|r| r.offset + r.total_len <= d.at);
        let mut may = may;
        may.append(&mut m2);
        (m1, may)
    } else {
        (must, may)
    };
    match res {
        Err(e) => {
            // the tool may refuse a blob whose header is unreadable
            let header_gone = input_bytes.len() < BLOB_HEADER_LEN || matches!(dmg, Some(d) if d.class == Some(ByteClass::BlobHeader));
            if header_gone && output.exists() && pearl::tools::validate_blob(&output).is_err() {
                world.probe("tools_refused_blob_left_output");
                ctx.violate(&["C16"], "recovery-left-invalid-output", "recovery_blob refused a blob with an unreadable header but left an output file that does not validate", format!("{}: output of {} bytes", desc, std::fs::metadata(&output).map(|m| m.len()).unwrap_or(0)));
            }
            if !header_gone {
                let meta_damage = matches!(dmg, Some(d) if d.class == Some(ByteClass::Meta));
                let cause = if meta_damage {
                    "recovery_blob aborts with an error on a record whose damaged metadata still deserialises (no checksum covers meta; the re-serialised size differs from the header)"
                } else {
                    "recovery_blob returns an error instead of recovering the intact records"
                };
                ctx.violate(&["C16"], "recovery-failed", cause, format!("{}: {:#}", desc, e));
            }
        }
        Ok(()) => {
            if let Err(e) = pearl::tools::validate_blob(&output) {
                ctx.violate(&["C16"], "recovered-blob-invalid", "the blob produced by recovery_blob does not validate", format!("{}: {:#}", desc, e));
                return;
            }
            let ctx2 = ctx.clone();
            let out_dir2 = out_dir.clone();
            let r = with_rt(async move { crate::toolcheck::storage_serves::<K>(&ctx2, &out_dir2, &must, &may).await });
            if let Err(p) = r {
                let after_skip = matches!(dmg, Some(d) if !d.truncation) && skip;
                let cause = if after_skip && (p.contains("loading it returned Err") || p.contains("other bytes")) {
                    "records recovered after a skipped damaged record keep their old embedded blob_offset: a storage opened on the recovered blob cannot serve them".to_string()
                } else {
                    format!("recovery_blob output: {}", p)
                };
                ctx.violate(&["C16"], "recovered-record-not-served", cause, desc);
            }
        }
    }
}

/// Sequential parse of a blob image with the harness's own parser.
pub fn parse_blob(content: &[u8], key_len: usize) -> Vec<PhysRec> {
    let mut recs = Vec::new();
    let mut p = BLOB_HEADER_LEN;
    while p < content.len() {
        let Some(h) = parse_record_header(&content[p..], key_len) else { break };
        let total = h.len as u64 + h.meta_size + h.data_size;
        if !h.crc_ok || p as u64 + total > content.len() as u64 {
            break;
        }
        let ms = p + h.len;
        let me = ms + h.meta_size as usize;
        let de = me + h.data_size as usize;
        recs.push(PhysRec {
            blob: 0,
            offset: p as u64,
            key: h.key.clone(),
            ts: h.timestamp,
            deleted: h.flags & 1 == 1,
            meta_size: h.meta_size,
            data_size: h.data_size,
            meta_raw: content[ms..me].to_vec(),
            data: content[me..de].to_vec(),
            data_crc_field: h.data_checksum,
            header_crc_ok: true,
            blob_offset_field: h.blob_offset,
            complete: true,
            bytes_written: total,
            total_len: total,
            seq: 0,
            done_seq: 0,
            tag: None,
        });
        p = de;
    }
    recs
}

pub fn _unused(_p: &Path) {}

//! Crash handling (C06): what is recorded when a session is killed and what is checked once
//! the next session has recovered.

use crate::exec::*;
use crate::plan::*;
use crate::world::*;
use pearl::{Key, Storage};
use std::collections::BTreeSet;
use std::rc::Rc;

/// Called after a killed session's runtime was dropped, before a power-loss image is built.
pub fn snapshot_before_recovery(ctx: &Rc<RunCtx>, power_loss: bool) {
    let w = ctx.world.inner.borrow();
    *ctx.pre_crash_phys.borrow_mut() = w.phys.clone();
    let mut victims = BTreeSet::new();
    for (name, sh) in w.shadows.iter() {
        if name.contains('/') || sh.quarantined || sh.removed {
            continue;
        }
        if let FileKind::Blob(id) = classify(name) {
            let torn_tail = w.phys.get(&id).map(|v| v.iter().any(|r| !r.complete)).unwrap_or(false);
            let short_header = sh.content.len() < BLOB_HEADER_LEN;
            let unsynced = power_loss && (sh.synced_len < sh.content.len() as u64 || !sh.pending.is_empty());
            if torn_tail || short_header || sh.has_holes || !sh.gaps.is_empty() || unsynced {
                victims.insert(id);
            }
        }
    }
    // victims of an earlier crash of the same run stay victims
    ctx.crash_victims.borrow_mut().extend(victims);
    // acknowledged operations (their records must be served or recoverable)
    let acked: BTreeSet<u32> = ctx.history.borrow().iter().filter(|h| matches!(h.result, OpResult::Ok | OpResult::OkCount(_))).map(|h| h.uid).collect();
    *ctx.acked_before_crash.borrow_mut() = acked;
    let q: BTreeSet<usize> = w.shadows.iter().filter(|(_, s)| s.quarantined).filter_map(|(n, _)| if let FileKind::Blob(id) = classify(n) { Some(id) } else { None }).collect();
    *ctx.quarantined_before.borrow_mut() = q;
}

/// Called right after `init` of the session that follows a crash.
pub async fn after_recovery<K>(ctx: &Rc<RunCtx>, storage: &Storage<K>, si: usize)
where
    for<'a> K: Key<'a> + AsRef<K> + 'static,
{
    let plan = ctx.plan.clone();
    let world = ctx.world.clone();
    let power_loss = matches!(plan.sessions[si - 1].end, SessionEnd::PowerLoss(_));
    // which blobs are attached, as observed
    let observed: BTreeSet<usize> = storage.records_count_detailed().await.iter().map(|x| x.0).collect();
    let in_dir: BTreeSet<usize> = ctx.attached_ignoring_ignored();
    let ignored: BTreeSet<usize> = in_dir.difference(&observed).copied().collect();
    *ctx.ignored.borrow_mut() = ignored.clone();
    let quarantined_now: BTreeSet<usize> = {
        let w = world.inner.borrow();
        w.shadows.iter().filter(|(_, s)| s.quarantined).filter_map(|(n, _)| if let FileKind::Blob(id) = classify(n) { Some(id) } else { None }).collect()
    };
    let newly: BTreeSet<usize> = quarantined_now.difference(&ctx.quarantined_before.borrow()).copied().collect();
    let victims = ctx.crash_victims.borrow().clone();
    for b in newly.iter().chain(ignored.iter()) {
        world.probe("blob_quarantined_after_crash");
        if !victims.contains(b) {
            let how = if newly.contains(b) { "quarantined" } else { "left out of the storage" };
            ctx.violate(&["C06"], "intact-blob-rejected", format!("a blob with no in-flight, torn or un-synced bytes at the crash was {} by recovery", how), format!("session {} blob {} victims={:?}", si, b, victims));
        }
    }
    if !ignored.is_empty() && !plan.sessions[si].ignore_corrupted.unwrap_or(plan.store.ignore_corrupted) {
        ctx.violate(&["C06"], "blob-dropped", "a blob file stays in the work dir but is not part of the storage although corrupted blobs are not ignored", format!("session {} ignored={:?}", si, ignored));
    }
    // kill model: every acknowledged record in a rejected blob must come back through the recovery tool
    if !power_loss {
        let acked = ctx.acked_before_crash.borrow().clone();
        let pre = ctx.pre_crash_phys.borrow().clone();
        for b in newly.iter().chain(ignored.iter()) {
            let recs = pre.get(b).cloned().unwrap_or_default();
            let must: Vec<PhysRec> = recs.iter().filter(|r| r.complete && r.tag.map(|t| acked.contains(&t.uid)).unwrap_or(false)).cloned().collect();
            let may: Vec<PhysRec> = recs.iter().filter(|r| r.complete && !r.tag.map(|t| acked.contains(&t.uid)).unwrap_or(false)).cloned().collect();
            if must.is_empty() {
                continue;
            }
            let name = format!("{}.{}.blob", PREFIX, b);
            let input = if newly.contains(b) { ctx.dir.join(CORRUPTED).join(&name) } else { ctx.dir.join(&name) };
            let out_dir = crate::toolcheck::scratch_sibling(ctx, "recovered");
            let output = out_dir.join(&name);
            world.probe("recovery_tool_run");
            match pearl::tools::recovery_blob(&input, &output, 0, true) {
                Err(e) => ctx.violate(&["C06"], "recovery-tool-failed", "recovery_blob failed on a blob rejected after a process kill", format!("blob {}: {:#}", b, e)),
                Ok(()) => {
                    if let Err(p) = crate::toolcheck::storage_serves::<K>(ctx, &out_dir, &must, &may).await {
                        ctx.violate(&["C06"], "acked-record-not-recoverable", format!("after a process kill an acknowledged record of a rejected blob is not restored by the recovery tool: {}", p), format!("blob {} must={} may={}", b, must.len(), may.len()));
                    }
                }
            }
        }
    }
}

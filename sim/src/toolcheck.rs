//! Opens a scratch storage on files produced by the offline tools (or copied blobs) and checks
//! that it serves a given set of records with their original bytes.

use crate::exec::*;
use crate::model::View;
use crate::plan::*;
use crate::world::*;
use pearl::{Key, Storage};
use std::path::{Path, PathBuf};
use std::rc::Rc;

pub fn scratch_sibling(ctx: &RunCtx, tag: &str) -> PathBuf {
    let n = ctx.scratch_counter.get();
    ctx.scratch_counter.set(n + 1);
    let base = ctx.dir.file_name().map(|s| s.to_string_lossy().to_string()).unwrap_or_default();
    let p = ctx.dir.parent().unwrap().join(format!("{}-{}-{}", base, tag, n));
    let _ = std::fs::remove_dir_all(&p);
    std::fs::create_dir_all(&p).expect("scratch sibling");
    ctx.scratch_dirs.borrow_mut().push(p.clone());
    p
}

/// Every record of `must` has to be served (exact bytes, right rank position among `may`+`must`);
/// records of `may` can be present or absent. Returns a description of the first problem.
pub async fn storage_serves<K>(ctx: &Rc<RunCtx>, dir: &Path, must: &[PhysRec], may: &[PhysRec]) -> Result<(), String>
where
    for<'a> K: Key<'a> + AsRef<K> + 'static,
{
    let plan = ctx.plan.clone();
    let sess = SessionPlan { lazy_init: false, pre: vec![], clients: vec![vec![]], end: SessionEnd::Close, validate_data: Some(false), ignore_corrupted: Some(false), bloom_alt: None, bloom_use_alt: false, bloom_alt_off: false };
    let mut st: Storage<K> = build_storage::<K>(&plan.store, &sess, dir);
    if let Err(e) = st.init().await {
        return Err(format!("init on the tool output returned Err({})", err_kind(&e)));
    }
    let mut problem: Option<String> = None;
    let all: Vec<&PhysRec> = must.iter().chain(may.iter()).collect();
    let mut keys: Vec<Vec<u8>> = all.iter().map(|r| r.key.clone()).collect();
    keys.sort();
    keys.dedup();
    'outer: for kb in keys {
        let key: K = K::from(kb.clone());
        // all versions, no cut: compare as multisets of (deleted, ts, data) restricted to `must`
        let mut served: Vec<(bool, u64, Result<Vec<u8>, String>)> = Vec::new();
        // read_all_with_deletion_marker cuts after the first marker, so walk with the model
        let got = match st.read_all_with_deletion_marker(&key).await {
            Ok(g) => g,
            Err(e) => {
                problem = Some(format!("read_all_with_deletion_marker on the tool output returned Err({})", err_kind(&e)));
                break 'outer;
            }
        };
        for e in got {
            let d = e.is_deleted();
            let t: u64 = e.timestamp().into();
            match e.load().await {
                Ok(rec) => served.push((d, t, Ok(rec.into_data().to_vec()))),
                Err(err) => served.push((d, t, Err(err_kind(&err)))),
            }
        }
        // expected list if everything of must+may were present
        let view_all = View::from_recs(all.clone());
        let exp_all = view_all.read_all_with_marker(&kb);
        let view_must = View::from_recs(must.iter().collect());
        let exp_must = view_must.read_all_with_marker(&kb);
        // every must-record that survives the cut in the full view must be served with exact bytes
        for r in exp_must.iter() {
            if !exp_all.iter().any(|x| x.blob == r.blob && x.offset == r.offset) {
                continue; // hidden behind an optional marker
            }
            let hit = served.iter().find(|s| s.0 == r.deleted && s.1 == r.ts && s.2.as_ref().map(|d| d.as_slice() == r.data.as_slice()).unwrap_or(false));
            if hit.is_none() {
                let e = served.iter().find(|s| s.0 == r.deleted && s.1 == r.ts);
                problem = Some(match e {
                    Some((_, _, Err(k))) => format!("a contained record is listed but loading it returned Err({})", k),
                    Some((_, _, Ok(_))) => "a contained record is served with other bytes".to_string(),
                    None => "a record that must be contained is not served".to_string(),
                });
                break 'outer;
            }
        }
        // nothing may be served that was never written
        for s in served.iter() {
            if let Ok(d) = &s.2 {
                if !all.iter().any(|r| r.key == kb && r.deleted == s.0 && r.ts == s.1 && r.data.as_slice() == d.as_slice()) {
                    problem = Some("the tool output serves a record that was never written".to_string());
                    break 'outer;
                }
            }
        }
    }
    let _ = st.close().await;
    match problem {
        Some(p) => Err(p),
        None => Ok(()),
    }
}

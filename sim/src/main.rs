mod batch;
mod c12;
mod cancel;
mod checks;
mod checks2;
mod checks3;
mod concurrent;
mod crash;
mod toolcheck;
mod exec;
mod faults;
mod lin;
mod tools_phase;
mod gen;
mod gen2;
mod gen3;
mod minimize;
mod model;
mod ops;
mod oracle;
mod plan;
mod queries;
mod rng;
mod session;
mod world;

use std::path::PathBuf;

fn usage() -> ! {
    eprintln!("usage: pearl-sim check <Cxx> [--tier quick|thorough] | replay <file> | one <property> <profile> <seed> | determinism <property> <n>");
    std::process::exit(2)
}

fn main() {
    let args: Vec<String> = std::env::args().collect();
    if args.len() < 2 {
        usage();
    }
    if std::env::var("SIM_WATCH").is_ok() {
        std::thread::spawn(|| loop {
            std::thread::sleep(std::time::Duration::from_secs(3));
            let u = exec::WATCH_UID.load(std::sync::atomic::Ordering::Relaxed);
            let p = exec::WATCH_POLLS.load(std::sync::atomic::Ordering::Relaxed);
            eprintln!("watch: client {} uid {} polls {} jobs {} sim_ms {} seq {}", u >> 32, u & 0xffff_ffff, p, exec::WATCH_JOBS.load(std::sync::atomic::Ordering::Relaxed), exec::WATCH_SIMMS.load(std::sync::atomic::Ordering::Relaxed), exec::WATCH_SEQ.load(std::sync::atomic::Ordering::Relaxed));
        });
    }
    let seed: u64 = std::env::var("VERIF_SEED").ok().and_then(|s| s.parse().ok()).unwrap_or(1);
    match args[1].as_str() {
        "check" => {
            if args.len() < 3 {
                usage();
            }
            let mut tier = std::env::var("VERIF_TIER").unwrap_or_else(|_| "quick".into());
            let mut i = 3;
            while i < args.len() {
                if args[i] == "--tier" && i + 1 < args.len() {
                    tier = args[i + 1].clone();
                    i += 1;
                }
                i += 1;
            }
            let Some(spec) = checks::spec_for(&args[2]) else {
                eprintln!("no check registered for {}", args[2]);
                std::process::exit(2)
            };
            let code = batch::run_check(&spec, &tier, seed);
            std::process::exit(code);
        }
        "replay" => {
            if args.len() < 3 {
                usage();
            }
            let s = std::fs::read_to_string(&args[2]).unwrap_or_else(|e| {
                eprintln!("cannot read {}: {}", args[2], e);
                std::process::exit(2)
            });
            let plan: plan::Plan = serde_json::from_str(&s).unwrap_or_else(|e| {
                eprintln!("cannot parse {}: {}", args[2], e);
                std::process::exit(2)
            });
            let out = exec::run_plan(&plan, &exec::RunOpts { keep_trace: true, ..Default::default() });
            println!("replay seed={} profile={} events={} sig={:016x}", plan.seed, plan.profile, out.events, out.sig);
            if std::env::var("SIM_TRACE").is_ok() {
                for l in out.trace_sample.iter() {
                    println!("  {}", l);
                }
                for h in out.history.iter().take(80) {
                    println!("  c{} #{} {:?} -> {:?}", h.client, h.uid, h.kind, h.result);
                }
            }
            for v in out.violations.iter() {
                println!("  violation property={} rule={} cause={} detail={}", v.property, v.rule, v.cause, v.detail);
            }
            if let Some(e) = &plan.expect {
                let hit = out.violations.iter().any(|v| v.rule == e.rule && v.cause == e.cause && v.property.split(',').any(|p| p == e.property));
                if hit {
                    println!("VIOLATION property={} replay={}", e.property, PathBuf::from(&args[2]).display());
                    std::process::exit(1);
                }
                println!("expected violation not reproduced: {:?}", e);
                std::process::exit(0);
            }
            std::process::exit(if out.violations.is_empty() { 0 } else { 1 });
        }
        "one" => {
            if args.len() < 5 {
                usage();
            }
            let plan = gen::gen_plan(&args[2], &args[3], args[4].parse().unwrap());
            if std::env::var("SHOW_PLAN").is_ok() {
                println!("{}", serde_json::to_string_pretty(&plan).unwrap());
            }
            let out = exec::run_plan(&plan, &exec::RunOpts { keep_trace: true, ..Default::default() });
            println!("events={} sim_ms={} sig={:016x} probes={:?} fired={:?}", out.events, out.sim_ms, out.sig, out.probes.map, out.fired.map);
            for l in out.trace_sample.iter() {
                println!("  {}", l);
            }
            for h in out.history.iter().take(80) {
                println!("  c{} #{} {:?} -> {:?}", h.client, h.uid, h.kind, h.result);
            }
            for v in out.violations.iter() {
                println!("VIOL property={} rule={} cause={} detail={}", v.property, v.rule, v.cause, v.detail);
            }
            for p in out.panics.iter() {
                println!("PANIC {}", p);
            }
        }
        "scan" => {
            // list the first example of every distinct (property, rule, cause) over n runs of a check's profiles
            if args.len() < 4 {
                usage();
            }
            let spec = checks::spec_for(&args[2]).unwrap_or_else(|| usage());
            let n: u64 = args[3].parse().unwrap();
            let mut seen: std::collections::BTreeMap<(String, String, String), (u64, String, u64, String, u64)> = std::collections::BTreeMap::new();
            for i in 0..n {
                let profile = batch::profile_for(&spec, i);
                let s = batch::plan_seed(seed, &spec.property, profile, i);
                let plan = gen::gen_plan(&spec.property, profile, s);
                let out = exec::run_plan(&plan, &exec::RunOpts::default());
                for v in out.violations.iter() {
                    let e = seen.entry((v.property.clone(), v.rule.clone(), v.cause.clone())).or_insert((0, profile.to_string(), s, v.detail.clone(), plan.op_count() as u64));
                    e.0 += 1;
                }
            }
            for ((p, r, c), (n, profile, s, d, ops)) in seen.iter() {
                println!("{} x{} rule={} cause={}\n     first: profile={} seed={} ops={} detail={}", p, n, r, c, profile, s, ops, d);
            }
        }
        "plan" => {
            let plan = gen::gen_plan(&args[2], &args[3], args[4].parse().unwrap());
            println!("{}", serde_json::to_string_pretty(&plan).unwrap());
        }
        "seedof" => {
            let spec = checks::spec_for(&args[2]).unwrap_or_else(|| usage());
            let i: u64 = args[3].parse().unwrap();
            let profile = batch::profile_for(&spec, i);
            println!("{} {}", profile, batch::plan_seed(seed, &spec.property, profile, i));
        }
        "list" => {
            for p in checks::ALL {
                if checks::spec_for(p).is_some() {
                    println!("{}", p);
                }
            }
        }
        "determinism" => {
            // print (index, signature) for n plans of every profile of a property: diffed by the caller
            if args.len() < 4 {
                usage();
            }
            let spec = checks::spec_for(&args[2]).unwrap_or_else(|| usage());
            let n: u64 = args[3].parse().unwrap();
            for i in 0..n {
                let profile = batch::profile_for(&spec, i);
                let s = batch::plan_seed(seed, &spec.property, profile, i);
                let plan = gen::gen_plan(&spec.property, profile, s);
                if std::env::var("SIM_WATCH").is_ok() {
                    eprintln!("run {} {} {}", i, profile, s);
                }
                let t0 = std::time::Instant::now();
                let out = exec::run_plan(&plan, &exec::RunOpts::default());
                if std::env::var("SIM_WATCH").is_ok() && t0.elapsed().as_secs() >= 5 {
                    eprintln!("  slow run {} took {}s", i, t0.elapsed().as_secs());
                }
                println!("{} {} {:016x} {} {}", i, profile, out.sig, out.events, out.violations.len());
            }
        }
        _ => usage(),
    }
}

//! Registry: which profiles decide which property, run counts per tier, non-triviality rules.

use crate::batch::{CheckSpec, ProfileSpec};
use crate::exec::RunOutcome;
use crate::plan::*;

pub const ALL: [&str; 17] = ["C01", "C02", "C03", "C04", "C05", "C06", "C07", "C08", "C09", "C10", "C11", "C12", "C13", "C14", "C15", "C16", "C17"];

fn data_ops(plan: &Plan) -> usize {
    plan.sessions.iter().flat_map(|s| s.clients.iter().flatten()).filter(|o| matches!(o.kind, OpKind::Write { .. } | OpKind::Delete { .. })).count()
}

fn nt_seq(plan: &Plan, out: &RunOutcome) -> bool {
    data_ops(plan) >= 4 && out.events > 20
}

fn nt_maint(plan: &Plan, out: &RunOutcome) -> bool {
    let m = out.probes.get("try_close_active_blob_ok") + out.probes.get("try_restore_active_blob_ok") + out.probes.get("try_create_active_blob_ok") + out.probes.get("offload_freed") + out.probes.get("delete_in_closed_blob");
    data_ops(plan) >= 3 && m >= 1
}

fn nt_filter(plan: &Plan, out: &RunOutcome) -> bool {
    plan.store.bloom.is_some() && data_ops(plan) >= 3 && out.probes.get("index_marked_complete") >= 1
}

fn nt_sync(plan: &Plan, out: &RunOutcome) -> bool {
    data_ops(plan) >= 3 && (out.probes.get("index_marked_complete") >= 1 || out.probes.get("dirty_bound_checked") >= 1)
}

fn nt_restart(plan: &Plan, out: &RunOutcome) -> bool {
    let damaged = out.fired.map.iter().any(|(k, v)| k.starts_with("index_") && *v > 0) || out.probes.get("index_truncation_length_swept") > 0;
    data_ops(plan) >= 3 && damaged && out.probes.get("index_marked_complete") >= 1
}

fn nt_files(plan: &Plan, out: &RunOutcome) -> bool {
    data_ops(plan) >= 3 && out.events > 20
}

const COMMON_ASSUMPTIONS: [&str; 4] = [
    "interleaving granularity is the await point plus five buggify yield sites; two blocking closures never overlap inside their bodies",
    "sampling, not enumeration: a clean batch is evidence, not proof",
    "directory operations during init (read_dir, rename, create_dir, remove_file) are real tokio::fs calls, not faulted",
    "the model derives the physical record list from the tapped writes; file contents are cross-checked against the shadow copy at session boundaries",
];

fn p(name: &'static str, weight: u32) -> ProfileSpec {
    ProfileSpec { name, weight }
}

pub fn spec_for(property: &str) -> Option<CheckSpec> {
    let a = COMMON_ASSUMPTIONS.to_vec();
    Some(match property {
        "C01" => CheckSpec {
            property: "C01".into(),
            level: "exploration",
            profiles: vec![p("seq", 12), p("seq-manyversions", 6), p("seq-maint", 4), p("seq-deepindex", 1), p("seq-filter", 3)],
            thorough_extra: vec![],
            quick_runs: 8_000,
            thorough_runs: 400_000,
            quick_budget_s: 60,
            thorough_budget_s: 600,
            nontrivial_rule: "seeded sequential histories (write/write_with/delete/delete_with, tied and inverted timestamps, rotation by tiny blob limits, idle periods, clean restarts eager/lazy, maintenance ops) over swarm-randomised key length, filter config, group size, I/O mode and latencies; after every step read and contains of every key are compared with the model's top-ranked record. Non-trivial = the history has >= 4 mutating data operations and > 20 I/O events; distinct = distinct I/O event signature (hash of the ordered (op,file,offset,len,result) trace)",
            nontrivial: nt_seq,
            assumptions: a,
            expected_probes: vec!["delete_in_closed_blob", "settled_checkpoint"],
        },
        "C02" => CheckSpec {
            property: "C02".into(),
            level: "exploration",
            profiles: vec![p("seq", 6), p("seq-manyversions", 2), p("seq-maint", 2), p("restart", 2)],
            thorough_extra: vec![],
            quick_runs: 12_000,
            thorough_runs: 400_000,
            quick_budget_s: 60,
            thorough_budget_s: 600,
            nontrivial_rule: "a share of restart histories (profile restart: close + reopen, more than ten blobs in a fifth of them) for the cross-blob order of equal-timestamp versions; one run in about fifty has a 70 000-byte metadata value; otherwise same histories as C01 with metadata (3 values + none), several markers per key, markers below live puts, both only_if_presented values, both duplicate policies; after every step read_all_with_deletion_marker (order, identity via load), read_all, read_with per meta value, delete count and marker placement, duplicate suppression (no physical record) are compared with the model. Non-trivial = >= 4 mutating data operations and > 20 I/O events; distinct = distinct I/O event signature",
            nontrivial: nt_seq,
            assumptions: a,
            expected_probes: vec!["delete_in_closed_blob", "dup_suppressed"],
        },
        "C03" => CheckSpec {
            property: "C03".into(),
            level: "fault_enumeration",
            profiles: vec![p("restart", 12), p("restart-sweep", 6), p("seq", 2), p("seq-deepindex", 1), p("conc", 3), p("crash-kill", 2)],
            thorough_extra: vec![p("restart-sweep-full", 4)],
            quick_runs: 5_000,
            thorough_runs: 200_000,
            quick_budget_s: 75,
            thorough_budget_s: 600,
            nontrivial_rule: "sequential histories (incl. deletes into already indexed closed blobs, which make the on-disk index stale) with clean close + reopen (eager/lazy) at random points; between the sessions each index file may be removed, truncated (random length; in sweep runs every sampled truncation length of one index file, each followed by its own reopen), cut to the header, have its written flag cleared, or be replaced by an older copy of itself. Oracle after every reopen: init Ok, every data query of every key equals the model (and therefore the answers before the close), records_count unchanged, next_blob_id above every id ever seen, no panic. Thorough tier sweeps every byte length (restart-sweep-full). A share of the runs are concurrent histories (profile conc: equal timestamps written by several clients) closed and reopened with one index removed, so that the order of an index built in memory by concurrent writers is compared with the order regenerated from the blob. The id clause (ids above every id ever present, including quarantined and ignored files) is also watched by the create monitor in a share of crash-kill runs, where unloadable blobs with the highest id occur (rule C07.id-reuse counts for C03 and C07). Non-trivial = >= 3 data operations, at least one index damage actually applied and at least one index completely written; distinct = distinct I/O event signature",
            nontrivial: nt_restart,
            assumptions: a,
            expected_probes: vec!["index_truncation_length_swept", "index_remove", "index_truncate", "index_stale", "index_clear_written", "index_header_only"],
        },
        "C04" => CheckSpec {
            property: "C04".into(),
            level: "exploration",
            profiles: vec![p("seq-maint", 16), p("seq-filter", 4), p("seq-maint+forcerace", 2), p("seq-deepindex", 1), p("seq-manyversions+maint", 3), p("seq-maint+opreadfault", 3)],
            thorough_extra: vec![],
            quick_runs: 12_000,
            thorough_runs: 400_000,
            quick_budget_s: 60,
            thorough_budget_s: 600,
            nontrivial_rule: "profile seq-maint+opreadfault: exactly one EIO on a read that is not one of the checker's own queries (index load, dump, background read), the operation hit may fail, answers must not change. Otherwise: sequential data histories with try_close/create/restore, background close/create/restore (only when applicable), force_update with three predicates, free_excess_resources, offload_buffer(level 0..3), fsyncdata, idle-until-dumped and restarts at random points; simulated latencies let index dumps finish at arbitrary moments relative to the next operation; both I/O modes. Oracle: lifecycle call returns Ok whenever its precondition (observed at a quiescent point) holds; all query answers equal the model after the call and again after background work has quiesced; following writes and deletes succeed. Non-trivial = >= 3 data operations and at least one successful lifecycle call, offload that freed memory, or delete into a closed blob; distinct = distinct I/O event signature",
            nontrivial: nt_maint,
            assumptions: a,
            expected_probes: vec!["try_close_active_blob_ok", "try_restore_active_blob_ok", "try_create_active_blob_ok", "restore_of_indexed_blob", "offload_freed"],
        },
        "C07" => CheckSpec {
            property: "C07".into(),
            level: "exploration",
            profiles: vec![p("seq", 2), p("seq-maint", 2), p("restart", 1), p("crash-kill", 2), p("crash-power", 1), p("iofault", 2), p("cancel", 1)],
            thorough_extra: vec![],
            quick_runs: 8_000,
            thorough_runs: 400_000,
            quick_budget_s: 60,
            thorough_budget_s: 600,
            nontrivial_rule: "monitor over every explored trace of the sequential, restart, crash (kill and power loss, recovery, quarantine), I/O-fault and cancellation profiles: (a) no write to a *.blob below the end of the bytes written so far, no truncate or re-create of a *.blob; (b) at every session boundary each blob file equals the shadow copy built from the tapped writes (in the work dir or unchanged under corrupted/), nothing disappears; (c) no blob id is created twice; (d) no create/write/truncate is attributed to a query operation. Non-trivial = >= 3 data operations and > 20 I/O events; distinct = distinct I/O event signature",
            nontrivial: nt_files,
            assumptions: a,
            expected_probes: vec![],
        },
        "C10" => CheckSpec {
            property: "C10".into(),
            level: "exploration",
            profiles: vec![p("seq-filter", 6), p("seq-maint", 2), p("seq", 2), p("seq-filter+readfault", 2)],
            thorough_extra: vec![],
            quick_runs: 12_000,
            thorough_runs: 400_000,
            quick_budget_s: 60,
            thorough_budget_s: 600,
            nontrivial_rule: "a third of the runs reopen under a second bloom configuration, in a third of those no bloom at all; profile seq-filter+readfault injects EIO at the n-th read of an index file (bloom bytes probed from the file after an offload, on-disk index lookups): a query hit by the error may return the error, never an absent answer for a stored key. Otherwise: sequential histories with swarm bloom configs (bit counts not multiple of 64, 0..4 hashers, zero sizes, no bloom), group sizes 2..9, close/restore/re-close, delete-in-closed, offload_buffer(needed, level 0..3), restarts reading filters back from index files. Oracle after every step, for every key with a stored record: check_filters != Some(false), check_filter != NotContains, get_filter().contains_fast != NotContains; for 64 probe keys check_filter is identical immediately before and after an offload (on-file probe == in-memory probe) at a quiescent point; a hidden record also fails the C01 read comparison. Non-trivial = bloom configured, >= 3 data operations and at least one index dumped; distinct = distinct I/O event signature. The bare Bloom/RangeFilter API on key sets is a pure function and is only covered through the storage",
            nontrivial: nt_filter,
            assumptions: a,
            expected_probes: vec!["offload_freed", "index_marked_complete"],
        },
        "C12" => CheckSpec {
            property: "C12".into(),
            level: "exploration",
            profiles: vec![p("seq", 4), p("seq-maint", 4), p("seq-filter", 1), p("conc", 3), p("conc+fsync", 2), p("crash-kill", 1), p("crash-double", 1)],
            thorough_extra: vec![],
            quick_runs: 12_000,
            thorough_runs: 400_000,
            quick_budget_s: 60,
            thorough_budget_s: 600,
            nontrivial_rule: "profile conc+fsync: clients call fsyncdata themselves while writes cross a dirty limit of 1..400 bytes; a record acknowledged before an fsyncdata call must be below the synced length when the call returns Ok (same blob active before and after). Otherwise: monitor over the ordered I/O tap (sequential profiles, concurrent clients, where writes land while a background sync is in flight, and a share of crash-kill / crash-double runs, where the synced length of a blob is carried across a process kill and rule (b) is re-stated on the image that survives a power loss) with the dirty-byte limit drawn from {0,1,100,4096,1MiB,32MiB}: (a) a record is written into a blob only after a sync covering its header; (b) the header rewrite that sets an index's written bit comes after a sync of the blob covering the blob size recorded in that header; (c) after explicit fsyncdata Ok (no concurrent writer) and after a successful try_close_active_blob/close (active blob observed at a quiescent point) written length = synced length of that blob; (d) at quiescent points (no simulated job in flight, no I/O for three 2 ms windows) un-synced bytes of the active blob <= limit. Non-trivial = >= 3 data operations and at least one index marked complete or one quiescent dirty-bound check; distinct = distinct I/O event signature",
            nontrivial: nt_sync,
            assumptions: a,
            expected_probes: vec!["index_marked_complete", "dirty_bound_checked"],
        },
        "C15" => CheckSpec {
            property: "C15".into(),
            level: "exploration",
            profiles: vec![p("seq", 4), p("seq-maint", 4), p("seq-filter", 1), p("restart", 1), p("crash-kill", 2), p("conc", 2)],
            thorough_extra: vec![],
            quick_runs: 8_000,
            thorough_runs: 400_000,
            quick_budget_s: 60,
            thorough_budget_s: 600,
            nontrivial_rule: "monitor at quiescent points of sequential histories (deletes into closed blobs, manual close/restore/create, rotation, restarts) and at the quiescent end of concurrent sessions (clients racing with manual and background close/create/restore): records_count, records_count_detailed (as a set of (id,count)), records_count_in_active_blob, blobs_count, next_blob_id, corrupted_blobs_count, disk_used are compared with the physical record list derived from the tapped writes and with the directory listing. Non-trivial = >= 3 data operations and a successful lifecycle call or delete into a closed blob; distinct = distinct I/O event signature",
            nontrivial: nt_maint,
            assumptions: a,
            expected_probes: vec!["settled_checkpoint", "try_restore_active_blob_ok"],
        },
        _ => return crate::checks2::spec_for2(property),
    })
}

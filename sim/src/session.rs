//! One session = one tokio runtime lifetime: build the storage, init, drive the clients
//! (sequentially with per-step oracles, or concurrently), end by close / drop / crash.

use crate::exec::*;
use crate::model::View;
use crate::plan::*;
use crate::world::*;
use pearl::{BloomProvider, Key, Storage};
use std::collections::{BTreeMap, BTreeSet};
use std::rc::Rc;
use std::time::Duration;

#[derive(Debug, Clone, PartialEq)]
pub enum SessionOutcome {
    Closed,
    Dropped,
    Killed,
    InitFailed(String),
    /// the watchdog fired: some client never finished although nothing was runnable
    Hung(String),
}

pub fn has_flag(plan: &Plan, f: &str) -> bool {
    plan.profile.split('+').any(|x| x == f)
}

fn is_maintenance(k: &OpKind) -> bool {
    matches!(
        k,
        OpKind::TryClose | OpKind::TryCreate | OpKind::TryRestore | OpKind::CloseBg | OpKind::CreateBg | OpKind::RestoreBg | OpKind::ForceUpdate(_) | OpKind::FreeExcess | OpKind::Offload { .. } | OpKind::Fsync
    )
}

pub async fn session_main<K>(ctx: Rc<RunCtx>, si: usize) -> SessionOutcome
where
    for<'a> K: Key<'a> + AsRef<K> + 'static,
{
    let plan = ctx.plan.clone();
    let sess = &plan.sessions[si];
    let world = ctx.world.clone();
    world.begin_session(si, &plan.faults);

    let mut storage: Storage<K> = build_storage::<K>(&plan.store, sess, &ctx.dir);
    let init_tag = Some(Tag { client: 0, uid: 0 });
    let init_res = if sess.lazy_init { tagged(&world, init_tag, storage.init_lazy()).await } else { tagged(&world, init_tag, storage.init()).await };
    if world.kill_flag.get() {
        return SessionOutcome::Killed;
    }
    if let Err(e) = init_res {
        let msg = format!("{:#}", e);
        return SessionOutcome::InitFailed(format!("{} :: {}", err_kind(&e), msg.chars().take(300).collect::<String>()));
    }
    let quarantined_before = quarantined_set(&world);
    world.reconcile_dir(CORRUPTED);
    ctx.force_update_since_open.set(false);
    *ctx.active_known.borrow_mut() = Some(storage.has_active_blob().await);
    ctx.ignored.borrow_mut().clear();
    if si > 0 && matches!(plan.sessions[si - 1].end, SessionEnd::Killed | SessionEnd::PowerLoss(_)) && ctx.crashed.get() {
        crate::crash::after_recovery::<K>(&ctx, &storage, si).await;
    } else {
        observe_ignored::<K>(&ctx, &storage, sess.ignore_corrupted.unwrap_or(plan.store.ignore_corrupted)).await;
        if si > 0 && plan.sessions[si - 1].end == SessionEnd::Close && base_phase(&plan, si) == Some("crash") {
            rejected_after_recovery(&ctx, si, &quarantined_before);
        }
    }
    crate::oracle::after_init(&ctx, &storage, si).await;

    let sequential = sess.clients.len() == 1;
    let outcome;
    if sequential {
        let mut st = Some(storage);
        let r = run_sequential::<K>(&ctx, &mut st, si).await;
        match r {
            Some(o) => return o,
            None => {}
        }
        storage = match st {
            Some(s) => s,
            None => return SessionOutcome::Closed,
        };
        outcome = finish::<K>(&ctx, storage, si).await;
    } else {
        let shared = Rc::new(storage);
        let r = crate::concurrent::run_clients::<K>(&ctx, shared.clone(), si).await;
        if let Some(o) = r {
            return o;
        }
        crate::lin::check_history(&ctx, si);
        if crate::oracle::settle(&ctx).await {
            *ctx.last_step_note.borrow_mut() = format!("at quiescence after the concurrent session {}", si);
            check_all_queries::<K>(&ctx, &shared, "quiescent", 2_000_000 + si as u32).await;
            crate::oracle::check_accounting(&ctx, &shared, "quiescent").await;
            // a restore makes a closed blob (whose deletion markers are outside the dirty accounting, a
            // recorded finding that cannot be told apart here) the active blob: only sessions without a
            // successful restore are judged
            let restored = ctx.history.borrow().iter().any(|h| h.session == si && matches!(h.kind, OpKind::TryRestore | OpKind::RestoreBg) && !matches!(h.result, OpResult::Err(_) | OpResult::Skipped));
            if !restored && !sess.lazy_init && si == 0 {
                crate::oracle::check_dirty_bound(&ctx, &shared).await;
            }
        }
        let storage = match Rc::try_unwrap(shared) {
            Ok(s) => s,
            Err(_) => {
                ctx.violate(&["HARNESS"], "harness", "storage still shared at session end", "");
                return SessionOutcome::Dropped;
            }
        };
        outcome = finish::<K>(&ctx, storage, si).await;
    }
    outcome
}

async fn finish<K>(ctx: &Rc<RunCtx>, storage: Storage<K>, si: usize) -> SessionOutcome
where
    for<'a> K: Key<'a> + AsRef<K> + 'static,
{
    let plan = ctx.plan.clone();
    let world = ctx.world.clone();
    match plan.sessions[si].end {
        SessionEnd::Drop => {
            drop(storage);
            SessionOutcome::Dropped
        }
        _ => {
            if world.kill_flag.get() {
                return SessionOutcome::Killed;
            }
            crate::oracle::before_close(ctx, &storage, si).await;
            let t0 = world.sim_ms();
            let close_tag = Some(Tag { client: 0, uid: u32::MAX - 1 });
            let r = tokio::time::timeout(Duration::from_secs(3600), tagged(&world, close_tag, storage.close())).await;
            if world.kill_flag.get() {
                return SessionOutcome::Killed;
            }
            match r {
                Err(_) => {
                    ctx.violate(&["C13"], "close-hangs", "close() did not return within one simulated hour", format!("session {}", si));
                    return SessionOutcome::Hung("close".into());
                }
                Ok(Err(e)) => {
                    let fault_free = plan.faults.is_empty();
                    if fault_free {
                        ctx.violate(&["C04", "C13"], "close-failed", format!("close() returned Err({}) in a fault-free run", err_kind(&e)), format!("session {}: {:#}", si, e));
                    }
                }
                Ok(Ok(())) => {}
            }
            let dt = world.sim_ms() - t0;
            if dt > 60_000 && plan.faults.is_empty() && !has_flag(&plan, "slowdisk") && !matches!(plan.sched.latency, Latency::HeavyTail { .. }) {
                ctx.violate(&["C13"], "close-slow", "close() took more than 60 simulated seconds", format!("session {} took {} ms", si, dt));
            }
            crate::oracle::after_close(ctx, si);
            SessionOutcome::Closed
        }
    }
}

/// Returns Some(outcome) when the session ended inside (kill), None to continue to `finish`.
async fn run_sequential<K>(ctx: &Rc<RunCtx>, st: &mut Option<Storage<K>>, si: usize) -> Option<SessionOutcome>
where
    for<'a> K: Key<'a> + AsRef<K> + 'static,
{
    let plan = ctx.plan.clone();
    let world = ctx.world.clone();
    let ops = &plan.sessions[si].clients[0];
    let mut maintenance_seen = false;
    if plan.check_each_step {
        let phase = if si > 0 { restart_phase(&plan, si) } else { "step" };
        check_all_queries::<K>(ctx, st.as_ref().unwrap(), phase, 1_000_000 + si as u32).await;
        if matches!(phase, "restart" | "quiescent") && si > 0 && plan.sessions[si - 1].end == SessionEnd::Close {
            crate::queries::restart_changed_answers(ctx, &format!("reopen at the start of session {}", si));
        } else {
            ctx.mismatch_before_close.borrow_mut().take();
        }
        if crate::oracle::settle(ctx).await {
            crate::oracle::check_accounting(ctx, st.as_ref().unwrap(), phase).await;
        }
    }
    // after a dropped future, half of the time the next operation starts at once: no queries and
    // no think time in between, so it meets the detached work of the cancelled one
    let mut chase = false;
    let mut quiet_tail = false;
    for op in ops.iter() {
        if world.kill_flag.get() {
            return Some(SessionOutcome::Killed);
        }
        if op.think_ms > 0 && !chase {
            tokio::time::sleep(Duration::from_millis(op.think_ms)).await;
        }
        chase = false;
        if let OpKind::Restart { lazy, damage } = &op.kind {
            let storage = st.take().unwrap();
            match restart_once::<K>(ctx, storage, si, op.uid, *lazy, damage, true).await {
                Ok(s2) => *st = Some(s2),
                Err(o) => return Some(o),
            }
            maintenance_seen = false;
            continue;
        }
        if let OpKind::RestartSweep { lazy, blob, max_cuts } = &op.kind {
            let mut storage = st.take().unwrap();
            // first a plain restart so that every closed blob has an index file
            storage = match restart_once::<K>(ctx, storage, si, op.uid, *lazy, &[], true).await {
                Ok(s2) => s2,
                Err(o) => return Some(o),
            };
            let att: Vec<usize> = ctx.attached().into_iter().collect();
            let with_index: Vec<usize> = att.iter().copied().filter(|b| world.inner.borrow().shadows.get(&format!("{}.{}.index", PREFIX, b)).map(|s| !s.removed && !s.content.is_empty()).unwrap_or(false)).collect();
            if !with_index.is_empty() {
                let b = with_index[*blob % with_index.len()];
                let len = world.inner.borrow().shadows[&format!("{}.{}.index", PREFIX, b)].content.len() as u64;
                let mut cuts: Vec<u64> = Vec::new();
                if len <= *max_cuts as u64 {
                    cuts.extend(0..len);
                } else {
                    let n = (*max_cuts as u64).max(8);
                    for i in 0..n {
                        cuts.push(i * len / n);
                    }
                    for c in [0u64, 1, 82, 83, 84, len - 1, len.saturating_sub(57 + ctx.key_len as u64), len.saturating_sub(58 + ctx.key_len as u64)] {
                        if c < len {
                            cuts.push(c);
                        }
                    }
                    cuts.sort();
                    cuts.dedup();
                }
                for l in cuts {
                    world.probe("index_truncation_length_swept");
                    // pick_blob() indexes blobs *with* an index file: translate
                    let pos = with_index.iter().position(|x| *x == b).unwrap_or(0);
                    let dmg = vec![AtRest::IndexTruncate { blob: pos, len: l }];
                    let nviol = ctx.violations.borrow().len();
                    storage = match restart_once::<K>(ctx, storage, si, op.uid, *lazy, &dmg, false).await {
                        Ok(s2) => s2,
                        Err(o) => {
                            ctx.sweep_hit.borrow_mut().get_or_insert((op.uid, dmg.clone()));
                            return Some(o);
                        }
                    };
                    if ctx.violations.borrow().len() > nviol {
                        ctx.sweep_hit.borrow_mut().get_or_insert((op.uid, dmg.clone()));
                        break;
                    }
                }
            }
            *st = Some(storage);
            maintenance_seen = false;
            continue;
        }
        if let OpKind::FlipSweep { blob, rec, class, max_positions } = &op.kind {
            flip_sweep::<K>(ctx, st.as_ref().unwrap(), op.uid, *blob, *rec, *class, *max_positions).await;
            continue;
        }
        if let OpKind::CheckNow = &op.kind {
            let storage = st.as_ref().unwrap();
            let phase = base_phase(&plan, si).unwrap_or(if maintenance_seen { "maintenance" } else { "step" });
            *ctx.last_step_note.borrow_mut() = format!("at CheckNow uid={}", op.uid);
            check_all_queries::<K>(ctx, storage, phase, op.uid).await;
            if crate::oracle::settle(ctx).await {
                check_all_queries::<K>(ctx, storage, phase, op.uid).await;
                crate::oracle::check_accounting(ctx, storage, phase).await;
            }
            continue;
        }
        if let OpKind::QuietTail = &op.kind {
            quiet_tail = true;
            ctx.quiet_close.set(true);
            world.probe("close_follows_operations_at_once");
            continue;
        }
        if let OpKind::CheckDumped = &op.kind {
            crate::oracle::check_dumped::<K>(ctx, st.as_ref().unwrap()).await;
            continue;
        }
        if let OpKind::Damage(d) = &op.kind {
            crate::faults::apply_at_rest(ctx, std::slice::from_ref(d));
            *ctx.last_step_note.borrow_mut() = format!("after op uid={} {:?}", op.uid, op.kind);
            let storage = st.as_ref().unwrap();
            if plan.check_each_step {
                let phase = base_phase(&plan, si).unwrap_or("step");
                check_all_queries::<K>(ctx, storage, phase, op.uid).await;
            }
            continue;
        }
        if let OpKind::OverflowProbe { max_writes, gap_ms } = &op.kind {
            overflow_probe::<K>(ctx, st.as_ref().unwrap(), op.uid, *max_writes, *gap_ms).await;
            if plan.check_each_step {
                let phase = base_phase(&plan, si).unwrap_or("step");
                check_all_queries::<K>(ctx, st.as_ref().unwrap(), phase, op.uid).await;
            }
            continue;
        }
        let storage = st.as_mut().unwrap();
        let maint = is_maintenance(&op.kind);
        if let OpKind::Offload { .. } = op.kind {
            exec_offload::<K>(ctx, storage, op).await;
        } else {
            exec_op_checked::<K>(ctx, storage, op, 1, maintenance_seen, si).await;
        }
        if maint {
            maintenance_seen = true;
        }
        if world.kill_flag.get() {
            return Some(SessionOutcome::Killed);
        }
        if ctx.aborted.get() {
            break;
        }
        if matches!(op.kind, OpKind::Cancelled { .. }) && crate::rng::mix_all(&[plan.sched.seed, 11, op.uid as u64]) % 2 == 0 {
            world.probe("next_operation_chases_cancelled_one");
            chase = true;
            continue;
        }
        if quiet_tail {
            continue;
        }
        if plan.check_each_step && !matches!(op.kind, OpKind::Read { .. } | OpKind::Contains { .. } | OpKind::ReadAll { .. } | OpKind::ReadAllDel { .. } | OpKind::ReadWith { .. } | OpKind::CheckFilters { .. }) {
            let phase = base_phase(&plan, si).unwrap_or(if maintenance_seen { "maintenance" } else { "step" });
            check_all_queries::<K>(ctx, storage, phase, op.uid).await;
            // accounting is compared at quiescent points only (a blob being created by the
            // background worker exists on disk before it is attached)
            if crate::rng::mix_all(&[plan.sched.seed, 9, op.uid as u64]) % 2 == 0 {
                if crate::oracle::settle(ctx).await {
                    world.probe("settled_checkpoint");
                    check_all_queries::<K>(ctx, storage, phase, op.uid).await;
                    crate::oracle::check_accounting(ctx, storage, phase).await;
                    crate::oracle::check_dirty_bound(ctx, storage).await;
                }
            }
        }
        if ctx.violations.borrow().len() > 10 || ctx.aborted.get() {
            break;
        }
    }
    None
}

/// With `ignore_corrupted` a blob that fails to load stays in the work dir without being part of
/// the storage; which blobs are attached is observed, never predicted.
pub async fn observe_ignored<K>(ctx: &Rc<RunCtx>, storage: &Storage<K>, ignore_on: bool)
where
    for<'a> K: Key<'a> + AsRef<K> + 'static,
{
    ctx.ignored.borrow_mut().clear();
    if !ignore_on {
        return;
    }
    let observed: BTreeSet<usize> = storage.records_count_detailed().await.iter().map(|x| x.0).collect();
    let in_dir = ctx.attached_ignoring_ignored();
    let ignored: BTreeSet<usize> = in_dir.difference(&observed).copied().collect();
    // only blobs that were rejected once before (crash victims) may stay ignored
    let victims = ctx.crash_victims.borrow().clone();
    for b in ignored.iter() {
        if !victims.contains(b) {
            ctx.violate(&["C06", "C03"], "intact-blob-rejected", "a blob with no in-flight, torn or un-synced bytes at any crash was left out of the storage", format!("blob {} victims={:?}", b, victims));
        }
    }
    *ctx.ignored.borrow_mut() = ignored;
}

/// C05 sweep: every sampled byte position of one region of one stored record gets a burst while the
/// storage is open; all queries are compared; the bytes are restored before the next position.
pub async fn flip_sweep<K>(ctx: &Rc<RunCtx>, storage: &Storage<K>, uid: u32, blob: usize, rec: usize, class: ByteClass, max_positions: u32)
where
    for<'a> K: Key<'a> + AsRef<K> + 'static,
{
    let world = ctx.world.clone();
    crate::oracle::settle(ctx).await;
    let att: Vec<usize> = ctx.attached().into_iter().collect();
    if att.is_empty() {
        return;
    }
    let b = att[blob % att.len()];
    let name = format!("{}.{}.blob", PREFIX, b);
    let Some(original) = world.inner.borrow().shadows.get(&name).map(|s| s.content.clone()) else { return };
    let region = {
        let w = world.inner.borrow();
        let recs: Vec<&PhysRec> = w.phys.get(&b).map(|v| v.iter().filter(|r| r.complete).collect()).unwrap_or_default();
        if recs.is_empty() {
            return;
        }
        let r = recs[rec % recs.len()];
        let hl = record_header_len(ctx.key_len) as u64;
        match class {
            ByteClass::Data => (r.offset + hl + r.meta_size, r.offset + r.total_len),
            ByteClass::Meta => (r.offset + hl, r.offset + hl + r.meta_size),
            ByteClass::RecHeader => (r.offset, r.offset + hl),
            ByteClass::BlobHeader => (0, BLOB_HEADER_LEN as u64),
        }
    };
    let len = region.1.saturating_sub(region.0);
    if len == 0 {
        return;
    }
    let n = (max_positions as u64).min(len);
    for i in 0..n {
        // all positions of short regions, evenly spread positions of long ones
        let off = if len <= max_positions as u64 { i } else { i * len / n };
        let mask = 1u32 << ((i * 7 + uid as u64) % 8) | if i % 3 == 0 { 0x8100 } else { 0 };
        let hit = crate::faults::apply_bitflip(ctx, b, rec, class, off as u32, mask);
        if hit.is_none() {
            break;
        }
        world.probe("flip_sweep_position");
        *ctx.last_step_note.borrow_mut() = format!("flip sweep uid={} blob {} {:?} offset {} mask {:#x}", uid, b, class, off, mask);
        check_all_queries::<K>(ctx, storage, "bitflip", uid).await;
        // restore the original bytes
        world.set_file_content(&name, Some(original.clone()));
        ctx.damaged.borrow_mut().retain(|(db, _, _)| *db != b);
        if ctx.violations.borrow().iter().any(|v| v.property.contains("C05")) {
            break;
        }
    }
}

pub async fn observed_active<K>(st: &Storage<K>) -> Option<usize>
where
    for<'a> K: Key<'a> + AsRef<K> + 'static,
{
    if st.has_active_blob().await {
        st.records_count_detailed().await.last().map(|x| x.0)
    } else {
        None
    }
}

/// Liveness probe: keep writing until the active blob has been switched.
pub async fn overflow_probe<K>(ctx: &Rc<RunCtx>, storage: &Storage<K>, uid: u32, max_writes: u32, gap_ms: u64)
where
    for<'a> K: Key<'a> + AsRef<K> + 'static,
{
    use bytes::Bytes;
    let plan = ctx.plan.clone();
    let world = ctx.world.clone();
    crate::oracle::settle(ctx).await;
    let before = observed_active(storage).await;
    let files_before = ctx.attached_ignoring_ignored();
    let t0 = world.sim_ms();
    let mut rotated = false;
    let mut writes = 0;
    for i in 0..max_writes {
        let tag = Some(Tag { client: 1, uid: uid.wrapping_mul(1000).wrapping_add(i) });
        // fresh keys: with duplicates disallowed a write to a live key stores nothing
        let keyk: K = K::from(key_bytes((64 + (uid as u64 * 7 + i as u64) % 180) as u8, ctx.key_len));
        let value = value_bytes(uid.wrapping_mul(1000).wrapping_add(i), 24);
        let fault_seq_before = world.inner.borrow().last_fault_seq;
        let r = tagged(&world, tag, storage.write(&keyk, Bytes::from(value), pearl::BlobRecordTimestamp::new(1_000_000 + i as u64))).await;
        writes += 1;
        if let Err(e) = r {
            let fault_during = world.inner.borrow().last_fault_seq != fault_seq_before;
            if !fault_during && !world.is_dead() {
                let props: Vec<&str> = if plan.faults.is_empty() { vec!["C13"] } else { vec!["C11", "C13"] };
                ctx.violate(&props, "probe-write-failed", format!("write returned Err({}) during the rotation probe although no fault fired during the call", err_kind(&e)), format!("probe uid={} write {}", uid, i));
                return;
            }
        }
        tokio::time::sleep(std::time::Duration::from_millis(gap_ms)).await;
        let now = observed_active(storage).await;
        let files_now = ctx.attached_ignoring_ignored();
        if now != before && now.is_some() && files_now.len() > files_before.len() {
            rotated = true;
            break;
        }
        if world.kill_flag.get() {
            return;
        }
    }
    world.probe(if rotated { "probe_rotated" } else { "probe_not_rotated" });
    if !rotated {
        let limit = plan.store.max_data_in_blob;
        if (writes as u64) > limit + 3 {
            let props: Vec<&str> = if plan.faults.is_empty() { vec!["C13"] } else { vec!["C11", "C13"] };
            ctx.violate(&props, "rotation-stalled", "the active blob was not switched although its record limit was exceeded", format!("probe uid={}: {} writes over {} simulated ms, max_data_in_blob={}, active blob before {:?}", uid, writes, world.sim_ms() - t0, limit, before));
        }
    }
}

/// Clean close, damage to index files at rest, reopen in the same runtime, compare with the model.
pub async fn restart_once<K>(ctx: &Rc<RunCtx>, storage: Storage<K>, si: usize, uid: u32, lazy: bool, damage: &[AtRest], accounting: bool) -> Result<Storage<K>, SessionOutcome>
where
    for<'a> K: Key<'a> + AsRef<K> + 'static,
{
    let plan = ctx.plan.clone();
    let world = ctx.world.clone();
    crate::oracle::before_close(ctx, &storage, si).await;
    let counters_before = crate::oracle::counters_snapshot(&storage).await;
    let r = tagged(&world, Some(Tag { client: 0, uid }), storage.close()).await;
    if let Err(e) = r {
        if plan.faults.is_empty() {
            ctx.violate(&["C04", "C13"], "close-failed", format!("close() returned Err({}) in a fault-free run", err_kind(&e)), format!("{:#}", e));
        }
    }
    crate::oracle::after_close(ctx, si);
    crate::oracle::verify_files(ctx, "after clean close");
    crate::faults::save_index_copies(ctx);
    crate::faults::apply_at_rest(ctx, damage);
    let mut sess2 = plan.sessions[si].clone();
    sess2.lazy_init = lazy;
    ctx.reopen_count.set(ctx.reopen_count.get() + 1);
    sess2.bloom_use_alt = ctx.reopen_count.get() % 2 == 1;
    let mut s2: Storage<K> = build_storage::<K>(&plan.store, &sess2, &ctx.dir);
    let init_tag = Some(Tag { client: 0, uid });
    let fault_seq_before_init = world.inner.borrow().last_fault_seq;
    let r = if lazy { tagged(&world, init_tag, s2.init_lazy()).await } else { tagged(&world, init_tag, s2.init()).await };
    if let Err(e) = r {
        if world.inner.borrow().last_fault_seq != fault_seq_before_init {
            // the injected fault hit init itself: the affected call reported the error
            world.probe("fault_hit_init");
            ctx.aborted.set(true);
            let _ = e;
            return Err(SessionOutcome::Dropped);
        }
        let props: Vec<&str> = match base_phase(&plan, si) {
            Some("fault") => vec!["C11"],
            Some("cancel") => vec!["C14"],
            Some("crash") => vec!["C06"],
            Some("bitflip") => vec!["C05"],
            _ => vec!["C03"],
        };
        // a flipped blob header (version field) legitimately makes the blob unreadable: C05 only
        // speaks about data bytes
        let header_flip = damage.iter().any(|d| matches!(d, AtRest::BitFlip { class: ByteClass::BlobHeader, .. })) || ctx.damaged.borrow().iter().any(|(_, _, c)| *c == ByteClass::BlobHeader);
        if !(base_phase(&plan, si) == Some("bitflip") && header_flip) {
            ctx.violate(&props, "reopen-failed", format!("init after clean close returned Err({})", err_kind(&e)), format!("damage={:?}: {:#}", damage, e));
        }
        ctx.aborted.set(true);
        return Err(SessionOutcome::Dropped);
    }
    let quarantined_before: BTreeSet<usize> = world.inner.borrow().shadows.iter().filter(|(_, s)| s.quarantined).filter_map(|(n, _)| if let FileKind::Blob(id) = classify(n) { Some(id) } else { None }).collect();
    world.reconcile_dir(CORRUPTED);
    ctx.force_update_since_open.set(false);
    ctx.order_anomaly_reported.set(false);
    observe_ignored::<K>(ctx, &s2, sess2.ignore_corrupted.unwrap_or(plan.store.ignore_corrupted)).await;
    // a record left behind by a failed or cancelled operation may stay invisible for good (an index
    // file written at close describes the blob without it), or appear when the index is regenerated
    {
        let newly: Vec<usize> = world.inner.borrow().shadows.iter().filter(|(_, s)| s.quarantined).filter_map(|(n, _)| if let FileKind::Blob(id) = classify(n) { Some(id) } else { None }).filter(|b| !quarantined_before.contains(b)).collect();
        for b in newly {
            world.probe("blob_quarantined_at_restart");
            let (holes, torn) = {
                let w = world.inner.borrow();
                let name = format!("{}.{}.blob", PREFIX, b);
                (w.shadows.get(&name).map(|s| s.has_holes).unwrap_or(false), w.phys.get(&b).map(|v| v.iter().any(|r| !r.complete)).unwrap_or(false))
            };
            let damaged = ctx.damaged.borrow().iter().any(|(db, _, _)| *db == b);
            match base_phase(&plan, si) {
                Some("cancel") => {
                    let headerless = world.inner.borrow().shadows.get(&format!("{}.{}.blob", PREFIX, b)).map(|s| s.content.len() < BLOB_HEADER_LEN).unwrap_or(false);
                    let cause = if headerless { "a cancelled creation of a blob leaves a file without a complete header which is quarantined at the next start" } else { "after cancelled operations a blob file no longer parses and was quarantined at the next start" };
                    ctx.violate(&["C14"], "blob-rejected-after-cancel", cause, format!("blob {} holes={} torn={}", b, holes, torn))
                }
                Some("fault") => {
                    if !holes && !torn {
                        ctx.violate(&["C11"], "intact-blob-rejected", "a blob without any failed or partial write was quarantined at the next start", format!("blob {}", b));
                    }
                }
                Some("bitflip") => {
                    if !damaged {
                        ctx.violate(&["C05"], "intact-blob-rejected", "a blob whose bytes were not altered was quarantined at the next start", format!("blob {}", b));
                    }
                }
                Some("crash") => {}
                _ => ctx.violate(&["C03", "C07"], "blob-rejected-at-clean-restart", "a blob was quarantined by a restart after a clean close", format!("blob {} damage={:?}", b, damage)),
            }
        }
    }
    if base_phase(&plan, si) == Some("crash") {
        rejected_after_recovery(ctx, si, &quarantined_before);
    }
    *ctx.active_known.borrow_mut() = Some(s2.has_active_blob().await);
    *ctx.last_step_note.borrow_mut() = format!("after Restart(lazy={}, damage={:?}) uid={}", lazy, damage, uid);
    crate::oracle::after_init(ctx, &s2, si).await;
    if base_phase(&plan, si).is_none() {
        crate::oracle::compare_counters_after_restart(ctx, &counters_before, &s2, damage).await;
    }
    if plan.check_each_step || plan.profile.contains("deepindex") {
        let nviol = ctx.violations.borrow().iter().filter(|v| v.property.contains("C03")).count();
        check_all_queries::<K>(ctx, &s2, base_phase(&plan, si).unwrap_or("restart"), uid).await;
        if matches!(base_phase(&plan, si), None | Some("quiescent")) {
            crate::queries::restart_changed_answers(ctx, &format!("Restart(lazy={}, damage={:?}) uid={}", lazy, damage, uid));
        } else {
            ctx.mismatch_before_close.borrow_mut().take();
        }
        if accounting && crate::oracle::settle(ctx).await {
            crate::oracle::check_accounting(ctx, &s2, base_phase(&plan, si).unwrap_or("restart")).await;
        }
        if ctx.violations.borrow().iter().filter(|v| v.property.contains("C03")).count() > nviol {
            // the storage no longer matches the model: everything after this point would only
            // repeat the same defect
            ctx.aborted.set(true);
            return Err(SessionOutcome::Dropped);
        }
    }
    Ok(s2)
}

fn quarantined_set(world: &Rc<World>) -> BTreeSet<usize> {
    world.inner.borrow().shadows.iter().filter(|(_, s)| s.quarantined).filter_map(|(n, _)| if let FileKind::Blob(id) = classify(n) { Some(id) } else { None }).collect()
}

/// C06, sessions after the recovery: a blob that recovery accepted (it was part of the storage
/// when the last clean close began) must still be accepted by the next start. A process kill
/// leaves nothing that could be discovered late (a torn tail is seen by the first scan, an index
/// is trusted only for the exact blob length); after a power loss garbage inside the blob's length
/// can surface later (validation of data switched on, index removed), so the victims of a power
/// loss are exempt.
fn rejected_after_recovery(ctx: &Rc<RunCtx>, si: usize, quarantined_before: &BTreeSet<usize>) {
    let plan = ctx.plan.clone();
    let world = ctx.world.clone();
    let power_loss = plan.sessions.iter().take(si + 1).any(|s| matches!(s.end, SessionEnd::PowerLoss(_)));
    let newly: BTreeSet<usize> = quarantined_set(&world).difference(quarantined_before).copied().collect();
    let ignored = ctx.ignored.borrow().clone();
    let served = ctx.served_at_close.borrow().clone();
    let victims = ctx.crash_victims.borrow().clone();
    for b in newly.iter().chain(ignored.iter()) {
        if !served.contains(b) || (power_loss && victims.contains(b)) {
            continue;
        }
        world.probe("blob_rejected_after_recovery");
        ctx.violate(&["C06"], "blob-rejected-after-recovery", "a blob that was part of the storage after recovery was rejected by a later start after a clean close", format!("session {} blob {} victims={:?}", si, b, victims));
    }
}

fn restart_phase(plan: &Plan, si: usize) -> &'static str {
    match plan.sessions[si - 1].end {
        SessionEnd::Close | SessionEnd::Drop => base_phase(plan, si).unwrap_or("restart"),
        _ => "crash",
    }
}

/// Runs of the fault profiles attribute every later mismatch to the property of that profile.
pub fn base_phase(plan: &Plan, si: usize) -> Option<&'static str> {
    let b = plan.profile.split('+').next().unwrap_or("");
    if b.starts_with("crash") {
        if si > 0 { Some("crash") } else { None }
    } else if b.starts_with("iofault") {
        Some("fault")
    } else if b.starts_with("cancel") {
        Some("cancel")
    } else if b.starts_with("bitflip") {
        Some("bitflip")
    } else if b.starts_with("conc") {
        Some("quiescent")
    } else {
        None
    }
}

/// Execute one operation for a client; with per-step checks verify that exactly the expected
/// physical records appeared and that results match the documented contract.
pub async fn exec_op_checked<K>(ctx: &Rc<RunCtx>, storage: &Storage<K>, op: &Op, client: u32, maintenance_seen: bool, si: usize)
where
    for<'a> K: Key<'a> + AsRef<K> + 'static,
{
    let plan = ctx.plan.clone();
    let world = ctx.world.clone();
    let tag = Some(Tag { client, uid: op.uid });
    if matches!(&op.kind, OpKind::ForceUpdate(_)) || matches!(&op.kind, OpKind::Cancelled { op: inner, .. } if matches!(**inner, OpKind::ForceUpdate(_))) {
        ctx.force_update_since_open.set(true);
    }
    let bg_in_flux = ctx.bg_lifecycle_pending.get();
    if matches!(&op.kind, OpKind::CloseBg | OpKind::CreateBg | OpKind::RestoreBg | OpKind::ForceUpdate(_)) {
        ctx.bg_lifecycle_pending.set(true);
    }
    let fault_free = plan.faults.is_empty();
    let stepwise = plan.check_each_step && plan.sessions[si].clients.len() == 1;
    let fault_seq_before = world.inner.borrow().last_fault_seq;
    let mut strict = stepwise && fault_free;
    let lens = ctx.phys_lens();
    let attached = ctx.attached();
    *ctx.last_step_note.borrow_mut() = format!("after op uid={} {:?}", op.uid, op.kind);

    // ---- expectations computed before the call
    let mut suppressed = false;
    let mut suppressed_alt = false;
    let mut live_blobs: BTreeSet<usize> = BTreeSet::new();
    let mut live_blobs_alt: Vec<BTreeSet<usize>> = Vec::new();
    let tolerant_profile = base_phase(&plan, si).map(|p| matches!(p, "fault" | "cancel" | "crash" | "bitflip")).unwrap_or(false);
    let mut had_active = false;
    let mut active_before: Option<usize> = None;
    let mut fsync_pre: Option<(usize, Vec<(u64, u64)>)> = None;
    let mut precondition_known = false;
    match &op.kind {
        OpKind::Write { key, meta, .. } if stepwise => {
            let kb = key_bytes(*key, ctx.key_len);
            let w = world.inner.borrow();
            let view = View::new(&w.phys, &attached);
            let found = match meta {
                Some(m) => matches!(view.read_with(&kb, &meta_map(*m)), crate::model::MRead::Found(_)),
                None => matches!(view.read(&kb), crate::model::MRead::Found(_)),
            };
            suppressed = !plan.store.allow_duplicates && found;
            suppressed_alt = suppressed;
            if tolerant_profile && !plan.store.allow_duplicates {
                let optional = crate::queries::optional_set(ctx, &w.phys);
                for recs in crate::queries::admissible_record_sets(&w.phys, &attached, &optional) {
                    let v = View::from_recs(recs);
                    let f = match meta {
                        Some(m) => matches!(v.read_with(&kb, &meta_map(*m)), crate::model::MRead::Found(_)),
                        None => matches!(v.read(&kb), crate::model::MRead::Found(_)),
                    };
                    if f != found {
                        suppressed_alt = !suppressed;
                    }
                }
            }
        }
        OpKind::Delete { key, .. } if stepwise => {
            let kb = key_bytes(*key, ctx.key_len);
            let w = world.inner.borrow();
            let view = View::new(&w.phys, &attached);
            live_blobs = attached.iter().copied().filter(|b| view.live_in_blob(&kb, *b)).collect();
            if tolerant_profile {
                let optional = crate::queries::optional_set(ctx, &w.phys);
                for recs in crate::queries::admissible_record_sets(&w.phys, &attached, &optional) {
                    let v = View::from_recs(recs);
                    live_blobs_alt.push(attached.iter().copied().filter(|b| v.live_in_blob(&kb, *b)).collect());
                }
            }
            drop(w);
            active_before = if storage.has_active_blob().await { storage.records_count_detailed().await.last().map(|x| x.0) } else { None };
        }
        OpKind::TryClose | OpKind::TryCreate | OpKind::TryRestore | OpKind::CloseBg | OpKind::CreateBg | OpKind::RestoreBg => {
            // the precondition is only well-defined when no background request is in flight
            if stepwise {
                precondition_known = crate::oracle::settle(ctx).await;
            }
            had_active = tagged(&world, tag, storage.has_active_blob()).await;
            if had_active {
                active_before = storage.records_count_detailed().await.last().map(|x| x.0);
            }
        }
        OpKind::Fsync if !stepwise && fault_free && plan.sessions[si].clients.len() > 1 && plan.sessions.iter().all(|s| matches!(s.end, SessionEnd::Close)) => {
            // concurrent clients: no settling (a background sync may be in flight - that is the point).
            // Records of operations acknowledged before this call starts must be covered by a sync when
            // it returns Ok, provided the same blob is observed active before and after the call
            if let Some(a) = observed_active(storage).await {
                let acked: std::collections::HashSet<(u32, u32)> = ctx.history.borrow().iter().filter(|h| h.session == si && matches!(h.result, OpResult::Ok | OpResult::OkCount(_))).map(|h| (h.client, h.uid)).collect();
                let w = world.inner.borrow();
                let must: Vec<(u64, u64)> = w.phys.get(&a).map(|v| v.iter().filter(|r| r.complete && !r.deleted && r.tag.map(|t| acked.contains(&(t.client, t.uid))).unwrap_or(false)).map(|r| (r.offset, r.total_len)).collect()).unwrap_or_default();
                fsync_pre = Some((a, must));
            }
        }
        OpKind::Fsync if stepwise => {
            // observe which blob is active once background work has quiesced
            if crate::oracle::settle(ctx).await && storage.has_active_blob().await {
                active_before = storage.records_count_detailed().await.last().map(|x| x.0);
            }
        }
        _ => {}
    }
    let closed_nonempty = if had_active { attached.len() > 1 } else { !attached.is_empty() };
    // background requests that cannot apply are only sent by profiles that ask for them
    if let OpKind::CloseBg | OpKind::CreateBg | OpKind::RestoreBg = op.kind {
        let applicable = match op.kind {
            OpKind::CloseBg => had_active,
            OpKind::CreateBg => !had_active,
            _ => !had_active && closed_nonempty,
        };
        if !applicable {
            if !has_flag(&plan, "nonapplicable_bg") {
                let s = world.stamp();
                ctx.history.borrow_mut().push(HistEntry { client, uid: op.uid, kind: op.kind.clone(), invoke: s, ret: s, result: OpResult::Skipped, session: si });
                return;
            }
            world.probe("nonapplicable_bg_request");
        }
    }

    // ---- the call
    let invoke = world.stamp();
    let result = match &op.kind {
        OpKind::ClockJump { ms } => {
            world.jump_clock(*ms);
            world.inner.borrow_mut().fired.bump("clock_jump");
            OpResult::Ok
        }
        OpKind::Cancelled { k, op: inner } => crate::cancel::exec_cancelled::<K>(ctx, storage, op.uid, client, *k, inner).await,
        kind => tagged(&world, tag, crate::ops::op_future::<K>(storage, ctx.key_len, op.uid, kind)).await,
    };
    let ret = world.stamp();
    // an error is only excused by a fault that fired while this operation was running
    let fault_during_op = world.inner.borrow().last_fault_seq != fault_seq_before;
    if !fault_free && stepwise && !fault_during_op && !world.is_dead() {
        strict = true;
    }
    if fault_during_op {
        world.probe("fault_fired_inside_operation");
    }
    let fail_props: Vec<&str> = match base_phase(&plan, si) {
        Some("fault") => vec!["C11"],
        Some("cancel") => vec!["C14"],
        Some("crash") => vec!["C06"],
        Some("bitflip") => vec!["C05"],
        _ => vec![],
    };
    // records left behind by an operation that did not succeed may or may not be visible
    if matches!(result, OpResult::Err(_) | OpResult::Cancelled { .. }) {
        if let OpResult::Cancelled { .. } = result {
            // the detached blocking closures of the dropped future still run: in half of the cases
            // let them finish first, otherwise the next operation races with them
            if crate::rng::mix_all(&[plan.sched.seed, 31, op.uid as u64]) % 2 == 0 {
                crate::oracle::settle(ctx).await;
            } else {
                world.probe("next_op_races_detached_job");
            }
        }
        for r in ctx.new_records_since(&lens) {
            if r.complete && matches!(result, OpResult::Err(_)) && base_phase(&plan, si) == Some("fault") {
                // C11: an operation that returned an error must never be served as if it had succeeded
                ctx.forbidden_records.borrow_mut().insert((r.blob, r.offset));
                world.probe("complete_record_of_failed_op");
            } else if r.complete {
                ctx.optional_records.borrow_mut().insert((r.blob, r.offset));
                world.probe("optional_record_from_failed_or_cancelled_op");
            } else if matches!(result, OpResult::Cancelled { .. }) && r.bytes_written > 0 {
                ctx.violate(&["C14"], "partial-record-after-cancel", "a cancelled operation left a partially written record in a blob", format!("uid={} blob {} offset {} written {} of {}", op.uid, r.blob, r.offset, r.bytes_written, r.total_len));
            }
        }
    }

    // ---- contract checks
    match (&op.kind, &result) {
        (OpKind::Write { key, ts, len, meta }, OpResult::Ok) => {
            *ctx.active_known.borrow_mut() = Some(true);
            if stepwise {
                let kb = key_bytes(*key, ctx.key_len);
                let value = value_bytes(op.uid, *len as usize);
                // records are attributed to operations by the tag their write carried (a detached closure
                // of an earlier cancelled operation may append its record during this one)
                let new: Vec<PhysRec> = ctx.new_records_since(&lens).into_iter().filter(|r| r.complete && r.tag.map(|t| t.uid == op.uid).unwrap_or(true)).collect();
                let exp_meta = meta.map(meta_map).unwrap_or_default();
                if suppressed != suppressed_alt {
                    // whether the key is live depends on a record that may or may not be visible
                    world.probe("dup_check_depends_on_optional_record");
                } else if suppressed {
                    world.probe("dup_suppressed");
                    if !new.is_empty() {
                        ctx.violate(&["C02"], "dup-write-stored", "duplicate write stored a record although duplicates are disallowed", format!("uid={} new records {}", op.uid, new.len()));
                    }
                } else if new.len() != 1 {
                    let cause = if new.is_empty() { "acknowledged write left no record in any blob".to_string() } else { format!("acknowledged write produced {} records", new.len()) };
                    let mut props: Vec<&str> = if plan.store.allow_duplicates { vec!["C01", "C02", "C08"] } else { vec!["C02", "C01"] };
                    if !fail_props.is_empty() {
                        props = fail_props.clone();
                    }
                    ctx.violate(&props, "ack-record-mismatch", cause, format!("uid={} op={:?}", op.uid, op.kind));
                } else {
                    let r = &new[0];
                    let meta_ok = r.meta_map().map(|m| m == exp_meta).unwrap_or(false);
                    if r.key != kb || r.ts != *ts || r.deleted || !r.complete || !meta_ok {
                        ctx.violate(&["C01", "C05"], "ack-record-mismatch", "acknowledged write stored a record with other key/timestamp/meta", format!("uid={} stored key={:?} ts={} deleted={} complete={} meta_ok={}", op.uid, r.key, r.ts, r.deleted, r.complete, meta_ok));
                    } else if r.data != value || !r.data_ok() || !r.header_crc_ok {
                        ctx.violate(&["C05"], "stored-bytes-mismatch", "stored record bytes or checksums differ from the written value", format!("uid={} len={}", op.uid, len));
                    } else if r.blob_offset_field != r.offset {
                        let append_mode = world.inner.borrow().shadows.get(&format!("{}.{}.blob", PREFIX, r.blob)).map(|s| s.append_mode).unwrap_or(false);
                        if !fail_props.is_empty() && append_mode {
                            ctx.violate(&fail_props, "record-misplaced", "after a failed write on a reopened (append-mode) blob an acknowledged record landed below its reserved offset: its index entry and embedded blob_offset point past the record", format!("uid={} embedded offset {} physical offset {}", op.uid, r.blob_offset_field, r.offset));
                        } else {
                            ctx.violate(&["C05", "C08"], "embedded-offset-mismatch", "embedded blob_offset differs from the physical offset", format!("uid={} field={} physical={}", op.uid, r.blob_offset_field, r.offset));
                        }
                        ctx.aborted.set(true);
                    }
                }
            }
        }
        (OpKind::Write { .. }, OpResult::Err(e)) => {
            ctx.indeterminate.borrow_mut().insert(op.uid);
            if strict {
                let mut props: Vec<&str> = if maintenance_seen { vec!["C04"] } else { vec!["C01", "C04"] };
                if !fail_props.is_empty() {
                    props = fail_props.clone();
                }
                let why = if fault_free { "in a fault-free sequential run" } else { "although no fault fired during the call (earlier faults have cleared)" };
                ctx.violate(&props, "write-failed", format!("write returned Err({}) {}", e, why), format!("uid={} maintenance_seen={}", op.uid, maintenance_seen));
                ctx.aborted.set(true);
            }
        }
        (OpKind::Delete { key, ts, meta, only_if_presented }, OpResult::OkCount(n)) => {
            if !*only_if_presented {
                *ctx.active_known.borrow_mut() = Some(true);
            }
            if stepwise {
                let kb = key_bytes(*key, ctx.key_len);
                let new: Vec<PhysRec> = ctx.new_records_since(&lens).into_iter().filter(|r| r.complete && r.tag.map(|t| t.uid == op.uid).unwrap_or(true)).collect();
                let exp_meta = meta.map(meta_map).unwrap_or_default();
                let marked: Vec<usize> = new.iter().map(|r| r.blob).collect();
                let marked_set: BTreeSet<usize> = marked.iter().copied().collect();
                let bad = new.iter().any(|r| !r.deleted || r.key != kb || r.ts != *ts || !r.complete || r.meta_map().map(|m| m != exp_meta).unwrap_or(true) || r.data_size != 0);
                // which blob is active is observed through the API, never predicted
                let max_after = if storage.has_active_blob().await { storage.records_count_detailed().await.last().map(|x| x.0) } else { None };
                let mut expected = live_blobs.clone();
                let mut expected_alt = live_blobs.clone();
                if !*only_if_presented {
                    if let Some(m) = max_after {
                        expected.insert(m);
                    }
                    // the background worker may have switched the active blob right after the delete
                    if let Some(m) = active_before.or(max_after) {
                        expected_alt.insert(m);
                    }
                }
                if marked_set == expected_alt {
                    expected = expected_alt;
                }
                for alt in live_blobs_alt.iter() {
                    let mut e = alt.clone();
                    if !*only_if_presented {
                        if let Some(m) = active_before.or(max_after) {
                            e.insert(m);
                        }
                    }
                    if marked_set == e {
                        expected = e;
                        break;
                    }
                    let mut e2 = alt.clone();
                    if !*only_if_presented {
                        if let Some(m) = max_after {
                            e2.insert(m);
                        }
                    }
                    if marked_set == e2 {
                        expected = e2;
                        break;
                    }
                }
                if !*only_if_presented && marked_set != expected {
                    // racing blob switches (manual create vs background update) can make any of the
                    // most recently created blobs the active one for a moment
                    let top: Vec<usize> = ctx.attached().iter().rev().take(3).copied().collect();
                    for t in top {
                        let mut e = live_blobs.clone();
                        e.insert(t);
                        if marked_set == e {
                            expected = e;
                            world.probe("delete_active_blob_raced");
                            break;
                        }
                    }
                }
                let misplaced = new.iter().find(|r| r.blob_offset_field != r.offset).cloned();
                if let (Some(r), false) = (misplaced.as_ref(), fail_props.is_empty()) {
                    let append_mode = world.inner.borrow().shadows.get(&format!("{}.{}.blob", PREFIX, r.blob)).map(|s| s.append_mode).unwrap_or(false);
                    if append_mode {
                        ctx.violate(&fail_props, "record-misplaced", "after a failed write on a reopened (append-mode) blob an acknowledged record landed below its reserved offset: its index entry and embedded blob_offset point past the record", format!("uid={} (deletion marker) embedded offset {} physical offset {}", op.uid, r.blob_offset_field, r.offset));
                        ctx.aborted.set(true);
                    }
                }
                if ctx.aborted.get() {
                } else if bad {
                    ctx.violate(&["C02"], "delete-marker-mismatch", "delete stored something that is not a matching deletion marker", format!("uid={} new={:?}", op.uid, new.iter().map(|r| (r.blob, r.deleted, r.ts)).collect::<Vec<_>>()));
                } else if fault_during_op {
                    // errors while marking closed blobs are logged and skipped by design
                } else if marked.len() != marked_set.len() || marked_set != expected {
                    let cause = if marked_set.len() < expected.len() { "delete did not mark every blob in which the key is live" } else { "delete marked a blob in which the key is not live" };
                    ctx.violate(&["C02"], "delete-marker-placement", cause, format!("uid={} only_if_presented={} live_blobs={:?} expected={:?} marked={:?}", op.uid, only_if_presented, live_blobs, expected, marked));
                } else if *n != marked.len() as u64 {
                    ctx.violate(&["C02"], "delete-count", "delete returned a count different from the number of blobs marked", format!("uid={} returned={} marked={:?}", op.uid, n, marked));
                }
                if live_blobs.iter().any(|b| Some(*b) != max_after) {
                    world.probe("delete_in_closed_blob");
                }
                for r in new.iter() {
                    // written into a blob that was not the active one (while a background close or restore
                    // was in flight the observation made before the call may already have been stale)
                    if (Some(r.blob) != active_before || bg_in_flux) && Some(r.blob) != max_after {
                        ctx.closed_writes.borrow_mut().insert((r.blob, r.offset));
                    }
                }
            }
        }
        (OpKind::Delete { .. }, OpResult::Err(e)) => {
            ctx.indeterminate.borrow_mut().insert(op.uid);
            if strict {
                let mut props: Vec<&str> = if maintenance_seen { vec!["C04"] } else { vec!["C02", "C04"] };
                if !fail_props.is_empty() {
                    props = fail_props.clone();
                }
                let why = if fault_free { "in a fault-free sequential run" } else { "although no fault fired during the call (earlier faults have cleared)" };
                ctx.violate(&props, "delete-failed", format!("delete returned Err({}) {}", e, why), format!("uid={}", op.uid));
                ctx.aborted.set(true);
            }
        }
        (OpKind::TryClose | OpKind::TryCreate | OpKind::TryRestore, res) => {
            let (pre, name) = match op.kind {
                OpKind::TryClose => (had_active, "try_close_active_blob"),
                OpKind::TryCreate => (!had_active, "try_create_active_blob"),
                _ => (!had_active && closed_nonempty, "try_restore_active_blob"),
            };
            match res {
                OpResult::Ok => {
                    world.probe(&format!("{}_ok", name));
                    if matches!(op.kind, OpKind::TryRestore) {
                        // the restored blob's index is loaded into memory
                        if let Some(a) = storage.records_count_detailed().await.last().map(|x| x.0) {
                            ctx.loaded_at_init.borrow_mut().insert(a, world.seq());
                        }
                    }
                    if matches!(op.kind, OpKind::TryClose) && fault_free && stepwise && precondition_known {
                        if let Some(a) = active_before {
                            crate::oracle::check_blob_clean(ctx, a, "unsynced-after-close", "blob bytes remain un-synced after a successful close of the active blob");
                        }
                    }
                    if matches!(op.kind, OpKind::TryClose) && fault_free {
                        // concurrent clients included: the blob this call synced is the blob it closed;
                        // no record of a write may lie above its synced length when the call returns
                        // (markers that deletes append to closed blobs are the recorded dirty-bound finding)
                        let closed = world.inner.borrow().blob_sync_by_op.get(&(client, op.uid)).copied();
                        let active_now = observed_active(storage).await;
                        if let Some(b) = closed {
                            if active_now != Some(b) {
                                world.probe("closed_blob_checked_for_unsynced_records");
                                let d = {
                                    let w = world.inner.borrow();
                                    let name = format!("{}.{}.blob", PREFIX, b);
                                    match w.shadows.get(&name) {
                                        Some(sh) if !sh.quarantined && !sh.removed => w.phys.get(&b).and_then(|v| v.iter().find(|r| !r.deleted && r.offset + r.total_len > sh.synced_len)).map(|r| format!("{} synced {} of {}; record of a write at offset {} len {}", name, sh.synced_len, sh.content.len(), r.offset, r.total_len)),
                                        _ => None,
                                    }
                                };
                                if let Some(d) = d {
                                    ctx.violate(&["C12"], "unsynced-after-close", "a record written to the blob lies above its synced length when try_close_active_blob returns Ok", d);
                                }
                            }
                        }
                    }
                    *ctx.active_known.borrow_mut() = Some(!matches!(op.kind, OpKind::TryClose));
                    if matches!(op.kind, OpKind::TryRestore) {
                        if let Some(m) = ctx.attached().iter().next_back().copied() {
                            let idx = format!("{}.{}.index", PREFIX, m);
                            let indexed = world.inner.borrow().shadows.get(&idx).map(|s| !s.removed && !s.content.is_empty()).unwrap_or(false);
                            if indexed {
                                world.probe("restore_of_indexed_blob");
                            }
                        }
                    }
                }
                OpResult::Err(e) => {
                    if pre && fault_free && stepwise && precondition_known {
                        ctx.violate(&["C04"], "maintenance-op-failed", format!("{} returned Err({}) although its precondition held", name, e), format!("uid={} had_active={} attached={:?}", op.uid, had_active, attached));
                    }
                }
                _ => {}
            }
        }
        (OpKind::CloseBg | OpKind::CreateBg | OpKind::RestoreBg | OpKind::ForceUpdate(_), _) => {
            *ctx.active_known.borrow_mut() = None;
            // force_update creates the new blob outside the storage lock; unless the profile asks for
            // that race ("forcerace") wait until the worker has finished
            if matches!(op.kind, OpKind::ForceUpdate(_)) && stepwise && !has_flag(&plan, "forcerace") {
                crate::oracle::settle(ctx).await;
            }
        }
        (OpKind::Fsync, OpResult::Ok) if fsync_pre.is_some() => {
            let (a, must) = fsync_pre.take().unwrap();
            if observed_active(storage).await == Some(a) && !world.is_dead() {
                world.probe("fsync_checked_with_concurrent_clients");
                let d = {
                    let w = world.inner.borrow();
                    let name = format!("{}.{}.blob", PREFIX, a);
                    match w.shadows.get(&name) {
                        Some(sh) if !sh.quarantined && !sh.removed => must.iter().find(|(o, l)| o + l > sh.synced_len).map(|(o, l)| format!("{} synced {} of {}; record acknowledged before the call at offset {} len {}", name, sh.synced_len, sh.content.len(), o, l)),
                        _ => None,
                    }
                };
                if let Some(d) = d {
                    ctx.violate(&["C12"], "unsynced-after-fsync", "explicit fsyncdata returned Ok but a record acknowledged before the call lies above the synced length of the active blob", d);
                }
            }
        }
        (OpKind::Fsync, OpResult::Ok) => {
            // C12c: no concurrent writer in a sequential session
            if let (Some(a), true) = (active_before, strict) {
                crate::oracle::check_blob_clean(ctx, a, "unsynced-after-fsync", "explicit fsyncdata returned Ok but un-synced bytes of the active blob remain");
            }
        }
        (OpKind::Fsync, OpResult::Err(e)) => {
            if strict {
                ctx.violate(&["C04"], "maintenance-op-failed", format!("fsyncdata returned Err({}) in a fault-free run", e), format!("uid={}", op.uid));
            }
        }
        _ => {}
    }
    ctx.history.borrow_mut().push(HistEntry { client, uid: op.uid, kind: op.kind.clone(), invoke, ret, result, session: si });
}

/// `offload_buffer` needs `&mut Storage`; C10: the on-file probe must equal the in-memory probe.
pub async fn exec_offload<K>(ctx: &Rc<RunCtx>, storage: &mut Storage<K>, op: &Op)
where
    for<'a> K: Key<'a> + AsRef<K> + 'static,
{
    let world = ctx.world.clone();
    let tag = Some(Tag { client: 1, uid: op.uid });
    let OpKind::Offload { needed, level } = &op.kind else { return };
    *ctx.last_step_note.borrow_mut() = format!("after op uid={} {:?}", op.uid, op.kind);
    // compare at a quiescent point: a background restore/rotation legitimately changes answers
    let settled = crate::oracle::settle(ctx).await;
    let seq_before = world.seq();
    let mut before = Vec::new();
    for ki in 0..64u8 {
        let keyk: K = k::<K>(ctx, ki);
        before.push(tagged(&world, tag, BloomProvider::check_filter(&*storage, &keyk)).await);
    }
    let freed = tagged(&world, tag, BloomProvider::offload_buffer(storage, *needed, *level)).await;
    if freed > 0 {
        world.probe("offload_freed");
    }
    if !settled {
        return;
    }
    for ki in 0..64u8 {
        if world.seq() != seq_before {
            world.probe("offload_check_skipped_background_io");
            return;
        }
        let keyk: K = k::<K>(ctx, ki);
        let after = tagged(&world, tag, BloomProvider::check_filter(&*storage, &keyk)).await;
        if world.seq() != seq_before {
            // an injected read error hit this probe (the conservative answer is legitimate then)
            world.probe("offload_check_skipped_background_io");
            return;
        }
        if after != before[ki as usize] {
            ctx.violate(&["C10"], "offload-changes-answer", format!("check_filter changed from {:?} to {:?} across offload_buffer", before[ki as usize], after), format!("uid={} key={} needed={} level={}", op.uid, ki, needed, level));
            break;
        }
    }
}

/// After the runtime of a session has been dropped.
pub fn after_session(ctx: &Rc<RunCtx>, si: usize, outcome: SessionOutcome) {
    let plan = ctx.plan.clone();
    let world = ctx.world.clone();
    let sess = &plan.sessions[si];
    match &outcome {
        SessionOutcome::InitFailed(_) if world.inner.borrow().last_fault_seq.is_some() && world.inner.borrow().fault_log.iter().any(|l| l.contains("tag=Some(Tag { client: 0, uid: 0 })")) => {
            // an injected fault hit init itself: the affected call reported the error
            world.probe("fault_hit_init");
            ctx.aborted.set(true);
        }
        SessionOutcome::InitFailed(msg) => {
            let prev_end = if si > 0 { Some(plan.sessions[si - 1].end.clone()) } else { None };
            let props: Vec<&str> = match prev_end {
                _ if base_phase(&plan, si) == Some("crash") => vec!["C06"],
                Some(SessionEnd::Killed) | Some(SessionEnd::PowerLoss(_)) => vec!["C06"],
                Some(SessionEnd::Close) | Some(SessionEnd::Drop) => {
                    if plan.faults.is_empty() {
                        vec!["C03"]
                    } else {
                        vec!["C11"]
                    }
                }
                None => vec!["C03"],
            };
            let kind = msg.split(" :: ").next().unwrap_or("").to_string();
            ctx.violate(&props, "init-failed", format!("init returned Err({})", kind), format!("session {}: {}", si, msg));
        }
        SessionOutcome::Hung(what) => {
            if what == "watchdog" {
                // not a concurrent session's own detector: a call of the harness itself (an operation, a
                // query, close) never returned and nothing else could run
                let mut props: Vec<&str> = vec!["C08", "C13"];
                match base_phase(&plan, si) {
                    Some("fault") => props.push("C11"),
                    Some("cancel") => props.push("C14"),
                    Some("crash") => props.push("C06"),
                    _ => {}
                }
                world.probe("session_watchdog_fired");
                ctx.violate_post_mortem(&props, "deadlock", "a storage call never returned and nothing else was runnable: the storage is deadlocked", format!("session {}; {}; channel capacity {}", si, ctx.last_step_note.borrow(), plan.sched.channel_cap));
                ctx.aborted.set(true);
            }
        }
        _ => {}
    }
    // crash handling: which client operations were in flight
    ctx.crashed.set(false);
    if matches!(outcome, SessionOutcome::Killed) {
        world.probe("session_killed");
        ctx.crashed.set(true);
        crate::crash::snapshot_before_recovery(ctx, matches!(sess.end, SessionEnd::PowerLoss(_)));
        if let SessionEnd::PowerLoss(cut) = &sess.end {
            crate::faults::build_power_loss_image(ctx, cut);
        }
    }
    world.reconcile_dir(CORRUPTED);
    crate::oracle::verify_files(ctx, &format!("after session {}", si));
    let _ = BTreeMap::<u8, u8>::new();
}

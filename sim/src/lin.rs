//! C08: checks over the recorded history of a concurrent session.
//!
//! Linearizability condition (sound: never flags a linearizable history; exact for this data
//! type because every written value is unique and the rank of a record is a total order):
//! for a completed read of key k invoked at `inv` and returned at `ret`, let B be the records of
//! operations on k acknowledged before `inv`, C the records of operations on k that overlap the
//! read or whose outcome is indeterminate. The returned record r must be in B u C (or be
//! NotFound with B empty), must not rank below top(B), and if r is not in C it must be top(B).

use crate::exec::*;
use crate::plan::*;
use crate::world::*;
use std::collections::BTreeMap;
use std::rc::Rc;

fn rank(r: &PhysRec) -> (u64, usize, u64) {
    (r.ts, r.blob, r.offset)
}

pub fn check_history(ctx: &Rc<RunCtx>, si: usize) {
    let world = ctx.world.clone();
    let hist: Vec<HistEntry> = ctx.history.borrow().iter().filter(|h| h.session == si).cloned().collect();
    let phys = world.inner.borrow().phys.clone();
    // records by operation uid
    let mut by_uid: BTreeMap<u32, Vec<&PhysRec>> = BTreeMap::new();
    for v in phys.values() {
        for r in v.iter() {
            if let Some(t) = r.tag {
                if r.complete {
                    by_uid.entry(t.uid).or_default().push(r);
                }
            }
        }
    }
    // ---- no acknowledged write lost, exactly one record per acknowledged write
    for h in hist.iter() {
        match (&h.kind, &h.result) {
            (OpKind::Write { .. }, OpResult::Ok) => {
                let n = by_uid.get(&h.uid).map(|v| v.len()).unwrap_or(0);
                if n != 1 {
                    let cause = if n == 0 { "acknowledged write left no record in any blob".to_string() } else { format!("acknowledged write produced {} records", n) };
                    ctx.violate(&["C08"], "ack-record-mismatch", cause, format!("client {} uid {} {:?}", h.client, h.uid, h.kind));
                }
            }
            (OpKind::Delete { .. }, OpResult::OkCount(n)) => {
                let m = by_uid.get(&h.uid).map(|v| v.len()).unwrap_or(0) as u64;
                if m != *n {
                    ctx.violate(&["C08"], "delete-count", "delete returned a count different from the number of markers it stored", format!("client {} uid {} returned {} stored {}", h.client, h.uid, n, m));
                }
            }
            (OpKind::Write { .. } | OpKind::Delete { .. }, OpResult::Err(e)) => {
                world.probe(&format!("concurrent_data_op_err_{}", e.split('(').next().unwrap_or("")));
            }
            _ => {}
        }
    }
    // ---- stored layout: whole records, contiguous, embedded offset = physical offset
    for (b, v) in phys.iter() {
        let mut end = BLOB_HEADER_LEN as u64;
        let mut recs: Vec<&PhysRec> = v.iter().collect();
        recs.sort_by_key(|r| r.offset);
        for r in recs {
            if !r.complete || !r.header_crc_ok {
                ctx.violate(&["C08"], "torn-record", "a record in a blob is incomplete or has a bad header although nothing failed", format!("blob {} offset {}", b, r.offset));
                break;
            }
            if r.offset != end {
                let cause = if r.offset < end { "records overlap in a blob file" } else { "gap between records in a blob file" };
                ctx.violate(&["C08", "C07"], "record-layout", cause, format!("blob {} record at {} expected at {}", b, r.offset, end));
                break;
            }
            if r.blob_offset_field != r.offset {
                ctx.violate(&["C08", "C05"], "embedded-offset-mismatch", "embedded blob_offset differs from the physical offset", format!("blob {} field {} physical {}", b, r.blob_offset_field, r.offset));
                break;
            }
            end = r.offset + r.total_len;
        }
    }
    // ---- reads
    // writes/deletes per key
    struct W<'a> {
        inv: u64,
        ret: u64,
        acked: bool,
        recs: Vec<&'a PhysRec>,
    }
    let mut per_key: BTreeMap<u8, Vec<W>> = BTreeMap::new();
    for h in hist.iter() {
        let key = match &h.kind {
            OpKind::Write { key, .. } | OpKind::Delete { key, .. } => *key,
            OpKind::Cancelled { op, .. } => match &**op {
                OpKind::Write { key, .. } | OpKind::Delete { key, .. } => *key,
                _ => continue,
            },
            _ => continue,
        };
        let acked = matches!(h.result, OpResult::Ok | OpResult::OkCount(_));
        per_key.entry(key).or_default().push(W { inv: h.invoke, ret: h.ret, acked, recs: by_uid.get(&h.uid).cloned().unwrap_or_default() });
    }
    // records that existed before this session (earlier sessions): acknowledged long ago
    let session_uids: std::collections::BTreeSet<u32> = hist.iter().map(|h| h.uid).collect();
    let mut reads_checked = 0u64;
    let mut overlapping_reads = 0u64;
    for h in hist.iter() {
        let (key, is_contains) = match &h.kind {
            OpKind::Read { key } => (*key, false),
            OpKind::Contains { key } => (*key, true),
            _ => continue,
        };
        let OpResult::Read { class, data_hash, len, ts } = &h.result else {
            if let OpResult::Err(e) = &h.result {
                world.probe(&format!("concurrent_read_err_{}", e.split('(').next().unwrap_or("")));
            }
            continue;
        };
        reads_checked += 1;
        let kb = key_bytes(key, ctx.key_len);
        let empty: Vec<W> = Vec::new();
        let ws = per_key.get(&key).unwrap_or(&empty);
        let mut b: Vec<&PhysRec> = Vec::new();
        let mut c: Vec<&PhysRec> = Vec::new();
        // earlier sessions
        for v in phys.values() {
            for r in v.iter() {
                if r.key == kb && r.complete && !r.tag.map(|t| session_uids.contains(&t.uid)).unwrap_or(false) {
                    b.push(r);
                }
            }
        }
        for w in ws.iter() {
            if w.acked && w.ret < h.invoke {
                b.extend(w.recs.iter().copied());
            } else if w.inv < h.ret {
                c.extend(w.recs.iter().copied());
            }
        }
        if !c.is_empty() {
            overlapping_reads += 1;
        }
        let top_b = b.iter().copied().max_by_key(|r| rank(r));
        // identify the returned record
        let candidates: Vec<&PhysRec> = b.iter().chain(c.iter()).copied().collect();
        let returned: Option<&PhysRec> = match *class {
            "Found" => {
                if is_contains {
                    // contains only reports the timestamp: the best-ranked put with that timestamp
                    candidates.iter().copied().filter(|r| !r.deleted && r.ts == *ts).max_by_key(|r| rank(r))
                } else {
                    candidates.iter().copied().find(|r| !r.deleted && r.data.len() == *len && hash_data(&r.data) == *data_hash)
                }
            }
            "Deleted" => candidates.iter().copied().filter(|r| r.deleted && r.ts == *ts).max_by_key(|r| rank(r)),
            _ => None,
        };
        let what = if is_contains { "contains" } else { "read" };
        match *class {
            "NotFound" => {
                if top_b.is_some() {
                    ctx.violate(&["C08"], "stale-read", format!("{} returned NotFound although a write to the key was acknowledged before the call started", what), format!("client {} uid {} key {} inv {} ret {} acked-before records {}", h.client, h.uid, key, h.invoke, h.ret, b.len()));
                }
            }
            _ => match returned {
                None => {
                    ctx.violate(&["C08"], "phantom-read", format!("{} returned a value that no operation wrote to that key (or that was only written after the call returned)", what), format!("client {} uid {} key {} class {} len {} ts {}", h.client, h.uid, key, class, len, ts));
                }
                Some(r) => {
                    if let Some(tb) = top_b {
                        let in_c = c.iter().any(|x| x.blob == r.blob && x.offset == r.offset);
                        if rank(r) < rank(tb) {
                            // for contains the timestamp may also belong to a better concurrent record
                            ctx.violate(&["C08"], "stale-read", format!("{} returned a record ranked below a record acknowledged before the call started", what), format!("client {} uid {} key {} returned (ts {}, blob {}, off {}) but (ts {}, blob {}, off {}) was acknowledged before", h.client, h.uid, key, r.ts, r.blob, r.offset, tb.ts, tb.blob, tb.offset));
                        } else if !in_c && (r.blob, r.offset) != (tb.blob, tb.offset) && !is_contains {
                            ctx.violate(&["C08"], "stale-read", format!("{} returned a record that is neither concurrent nor the top-ranked acknowledged one", what), format!("client {} uid {} key {}", h.client, h.uid, key));
                        }
                    }
                }
            },
        }
    }
    {
        let mut w = world.inner.borrow_mut();
        w.probes.add("reads_checked_for_linearizability", reads_checked);
        w.probes.add("reads_overlapping_a_write", overlapping_reads);
    }
}

//! The only randomness of the simulator: SplitMix64 and stateless mixing.

#[derive(Clone, Debug)]
pub struct Rng(pub u64);

pub fn mix(mut z: u64) -> u64 {
    z = z.wrapping_add(0x9E37_79B9_7F4A_7C15);
    z = (z ^ (z >> 30)).wrapping_mul(0xBF58_476D_1CE4_E5B9);
    z = (z ^ (z >> 27)).wrapping_mul(0x94D0_49BB_1331_11EB);
    z ^ (z >> 31)
}

/// Stateless hash of several words (decisions keyed by identity, not by PRNG position).
pub fn mix_all(words: &[u64]) -> u64 {
    let mut h = 0x1234_5678_9ABC_DEF0u64;
    for w in words {
        h = mix(h ^ *w);
    }
    h
}

pub fn hash_str(s: &str) -> u64 {
    let mut h = 0xcbf2_9ce4_8422_2325u64;
    for b in s.as_bytes() {
        h ^= *b as u64;
        h = h.wrapping_mul(0x0000_0100_0000_01B3);
    }
    h
}

pub fn hash_bytes(s: &[u8]) -> u64 {
    let mut h = 0xcbf2_9ce4_8422_2325u64;
    for b in s {
        h ^= *b as u64;
        h = h.wrapping_mul(0x0000_0100_0000_01B3);
    }
    h
}

impl Rng {
    pub fn new(seed: u64) -> Self {
        Rng(mix(seed ^ 0xA5A5_5A5A_DEAD_BEEF))
    }
    pub fn next(&mut self) -> u64 {
        self.0 = self.0.wrapping_add(0x9E37_79B9_7F4A_7C15);
        let mut z = self.0;
        z = (z ^ (z >> 30)).wrapping_mul(0xBF58_476D_1CE4_E5B9);
        z = (z ^ (z >> 27)).wrapping_mul(0x94D0_49BB_1331_11EB);
        z ^ (z >> 31)
    }
    /// uniform in 0..n (n > 0)
    pub fn below(&mut self, n: u64) -> u64 {
        debug_assert!(n > 0);
        self.next() % n
    }
    pub fn range(&mut self, lo: u64, hi_incl: u64) -> u64 {
        lo + self.below(hi_incl - lo + 1)
    }
    pub fn chance(&mut self, num: u64, den: u64) -> bool {
        self.below(den) < num
    }
    pub fn pick<'a, T>(&mut self, xs: &'a [T]) -> &'a T {
        &xs[self.below(xs.len() as u64) as usize]
    }
    /// pick index by weights
    pub fn weighted(&mut self, weights: &[u32]) -> usize {
        let total: u64 = weights.iter().map(|w| *w as u64).sum();
        let mut x = self.below(total.max(1));
        for (i, w) in weights.iter().enumerate() {
            if x < *w as u64 {
                return i;
            }
            x -= *w as u64;
        }
        weights.len() - 1
    }
    pub fn fork(&mut self) -> Rng {
        Rng::new(self.next())
    }
}

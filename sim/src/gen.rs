//! Plan generators: everything is drawn from one seed (swarm style: sizes, workload mix,
//! knobs, enabled fault kinds and buggify sites vary per run).

use crate::plan::*;
use crate::rng::Rng;

pub struct Swarm {
    pub rng: Rng,
    pub next_uid: u32,
    pub n_keys: u8,
    pub n_metas: u8,
    pub ts_max: u64,
    pub big_values: bool,
}

impl Swarm {
    pub fn uid(&mut self) -> u32 {
        self.next_uid += 1;
        self.next_uid
    }
    pub fn key(&mut self) -> u8 {
        // biased towards few hot keys
        if self.rng.chance(1, 2) {
            self.rng.below(self.n_keys.min(3) as u64) as u8
        } else {
            self.rng.below(self.n_keys as u64) as u8
        }
    }
    pub fn ts(&mut self) -> u64 {
        if self.rng.chance(1, 12) {
            self.rng.range(0, 1 << 40)
        } else {
            self.rng.range(0, self.ts_max)
        }
    }
    pub fn meta(&mut self) -> Option<u8> {
        if self.n_metas == 0 || self.rng.chance(1, 2) {
            None
        } else {
            Some(self.rng.below(self.n_metas as u64) as u8)
        }
    }
    pub fn value_len(&mut self, key_len: u16) -> u32 {
        let hdr = 57 + key_len as u32 + 8; // record header + empty meta
        let single = 4096u32.saturating_sub(hdr);
        let r = self.rng.below(100);
        if r < 55 {
            self.rng.range(4, 40) as u32
        } else if r < 70 {
            *self.rng.pick(&[0u32, 1, 2, 3])
        } else if r < 85 {
            self.rng.range(41, 600) as u32
        } else if r < 93 || !self.big_values {
            // around the single-pass threshold (4096 - header - meta)
            let d = self.rng.range(0, 60) as u32;
            if self.rng.chance(1, 2) {
                single.saturating_sub(d)
            } else {
                single + d
            }
        } else if r < 98 {
            // around the in-place / background threshold
            let base = 81_920u32 - hdr;
            let d = self.rng.range(0, 40) as u32;
            if self.rng.chance(1, 2) {
                base - d
            } else {
                base + d
            }
        } else {
            200 * 1024
        }
    }
}

pub fn swarm_store(rng: &mut Rng) -> StoreCfg {
    let key_len = *rng.pick(&[8u16, 8, 8, 8, 8, 1, 1, 37, 37, 200]);
    let bloom = match rng.below(10) {
        0 => None,
        1 => Some(BloomCfg { elements: 0, hashers: 2, max_bits: 0, fpr_milli: 1 }),
        2 => Some(BloomCfg { elements: 10, hashers: 0, max_bits: 100, fpr_milli: 1 }),
        3 => Some(BloomCfg { elements: 7, hashers: 1, max_bits: 77, fpr_milli: 10 }),
        4 => Some(BloomCfg { elements: 3, hashers: 3, max_bits: 65, fpr_milli: 100 }),
        5 => Some(BloomCfg { elements: 20, hashers: 4, max_bits: 1000, fpr_milli: 1 }),
        6 => Some(BloomCfg { elements: 1, hashers: 2, max_bits: 8, fpr_milli: 500 }),
        7 => Some(BloomCfg { elements: 50, hashers: 2, max_bits: 129, fpr_milli: 1 }),
        _ => Some(BloomCfg { elements: 100, hashers: 2, max_bits: 4096, fpr_milli: 1 }),
    };
    let (dmin, dmax) = *rng.pick(&[(60_000u64, 180_000u64), (60_000, 180_000), (1_000, 3_000), (100, 300), (5_000, 5_000)]);
    StoreCfg {
        key_len,
        max_data_in_blob: *rng.pick(&[1u64, 2, 2, 3, 3, 4, 5, 6, 8, 16, 64]),
        max_blob_size: *rng.pick(&[150u64, 400, 1_000, 5_000, 1_000_000, 1_000_000, 1_000_000]),
        allow_duplicates: rng.chance(7, 10),
        ignore_corrupted: false,
        validate_data: rng.chance(1, 2),
        bloom,
        group_size: rng.range(2, 9) as usize,
        deferred_min_ms: dmin,
        deferred_max_ms: dmax,
        max_dirty: *rng.pick(&[0u64, 1, 100, 4096, 1 << 20, 32 << 20, 32 << 20]),
    }
}

pub fn swarm_sched(rng: &mut Rng, concurrent: bool) -> SchedCfg {
    let latency = match rng.below(10) {
        0..=3 => Latency::Zero,
        4..=7 => Latency::Uniform(rng.range(1, 3)),
        _ => Latency::HeavyTail { rare: rng.range(20, 200), stall_ms: *rng.pick(&[1_000u64, 5_000, 30_000]) },
    };
    let latency = if !concurrent && rng.chance(1, 2) { Latency::Zero } else { latency };
    SchedCfg { seed: rng.next(), latency, inplace_small: rng.chance(1, 2), buggify_mask: if rng.chance(1, 2) { rng.below(32) as u32 } else { 0 }, channel_cap: 1024, preempt_jobs: false }
}

fn think(rng: &mut Rng) -> u64 {
    match rng.below(20) {
        0 => 250,
        1 => 100,
        2 => 1,
        _ => 0,
    }
}

#[derive(Clone, Copy)]
pub struct Mix {
    pub write: u32,
    pub delete: u32,
    pub idle: u32,
    pub lifecycle: u32,
    pub lifecycle_bg: u32,
    pub force: u32,
    pub free: u32,
    pub offload: u32,
    pub fsync: u32,
    pub restart: u32,
    pub clock: u32,
}

pub const MIX_DATA: Mix = Mix { write: 50, delete: 20, idle: 5, lifecycle: 0, lifecycle_bg: 0, force: 0, free: 0, offload: 0, fsync: 0, restart: 3, clock: 0 };
pub const MIX_MAINT: Mix = Mix { write: 36, delete: 14, idle: 8, lifecycle: 14, lifecycle_bg: 4, force: 4, free: 3, offload: 5, fsync: 3, restart: 2, clock: 0 };

pub const MIX_FILTER: Mix = Mix { write: 40, delete: 12, idle: 6, lifecycle: 16, lifecycle_bg: 0, force: 5, free: 2, offload: 12, fsync: 0, restart: 6, clock: 0 };

pub fn gen_op(sw: &mut Swarm, mix: &Mix, key_len: u16) -> Op {
    let weights = [mix.write, mix.delete, mix.idle, mix.lifecycle, mix.lifecycle_bg, mix.force, mix.free, mix.offload, mix.fsync, mix.restart, mix.clock];
    let pick = sw.rng.weighted(&weights);
    let uid = sw.uid();
    let think_ms = think(&mut sw.rng);
    let kind = match pick {
        0 => OpKind::Write { key: sw.key(), ts: sw.ts(), len: sw.value_len(key_len), meta: sw.meta() },
        1 => OpKind::Delete { key: sw.key(), ts: sw.ts(), meta: if sw.rng.chance(1, 4) { sw.meta() } else { None }, only_if_presented: sw.rng.chance(1, 2) },
        2 => OpKind::Idle { ms: *sw.rng.pick(&[1u64, 50, 250, 1_000, 4_000, 70_000, 200_000]) },
        3 => match sw.rng.below(3) {
            0 => OpKind::TryClose,
            1 => OpKind::TryCreate,
            _ => OpKind::TryRestore,
        },
        4 => match sw.rng.below(3) {
            0 => OpKind::CloseBg,
            1 => OpKind::CreateBg,
            _ => OpKind::RestoreBg,
        },
        5 => OpKind::ForceUpdate(match sw.rng.below(3) {
            0 => Pred::Always,
            1 => Pred::Never,
            _ => Pred::CountGt(2),
        }),
        6 => OpKind::FreeExcess,
        7 => OpKind::Offload { needed: *sw.rng.pick(&[1usize, 64, 1_000_000]), level: sw.rng.below(4) as usize },
        8 => OpKind::Fsync,
        9 => OpKind::Restart { lazy: sw.rng.chance(1, 2), damage: vec![] },
        _ => OpKind::ClockJump { ms: *sw.rng.pick(&[-3_600_000i64, -1_000, 500, 3_600_000]) },
    };
    Op { uid, think_ms, kind }
}

pub fn base_plan(property: &str, profile: &str, seed: u64) -> (Plan, Swarm) {
    let mut rng = Rng::new(seed ^ crate::rng::hash_str(profile));
    let store = swarm_store(&mut rng);
    let sched = swarm_sched(&mut rng, false);
    let n_keys = rng.range(2, 9) as u8;
    let n_metas = rng.range(0, 3) as u8;
    // one run in sixteen of those with three meta values gets a fourth: a single attribute of 70 000 bytes
    // (decided from the seed, not from the stream, so that every other run keeps its history)
    let n_metas = if n_metas == 3 && crate::rng::mix_all(&[seed, 0x0b16_e7a0]) % 16 == 0 { 4 } else { n_metas };
    let ts_max = *rng.pick(&[3u64, 5, 8, 20]);
    let sw = Swarm { rng, next_uid: 0, n_keys, n_metas, ts_max, big_values: false };
    let plan = Plan { property: property.into(), profile: profile.into(), seed, store, sched, sessions: vec![], faults: vec![], check_each_step: true, n_keys, n_metas, expect: None };
    (plan, sw)
}

/// Sequential data histories with rotation, idle periods and clean restarts (C01, C02; monitors C10, C15, C07, C12).
pub fn gen_seq(property: &str, profile: &str, seed: u64) -> Plan {
    let (mut plan, mut sw) = base_plan(property, profile, seed);
    let n_ops = if profile.contains("manyversions") { sw.rng.range(20, 90) } else { sw.rng.range(8, 60) } as usize;
    let mix = if profile.contains("maint") {
        MIX_MAINT
    } else if profile.contains("filter") {
        MIX_FILTER
    } else {
        MIX_DATA
    };
    if profile.contains("filter") {
        // many small blobs so that the hierarchy has several levels; short dump deferral
        plan.store.max_data_in_blob = *sw.rng.pick(&[1u64, 1, 2, 2, 3]);
        plan.store.group_size = sw.rng.range(2, 4) as usize;
        plan.store.deferred_min_ms = 100;
        plan.store.deferred_max_ms = 300;
        if plan.store.bloom.is_none() && sw.rng.chance(2, 3) {
            plan.store.bloom = Some(BloomCfg { elements: 5, hashers: 2, max_bits: 130, fpr_milli: 5 });
        }
    }
    if profile.contains("manyversions") {
        // more than four versions of one key inside one blob: binary-search insertion path
        sw.n_keys = sw.n_keys.min(3);
        plan.n_keys = sw.n_keys;
        plan.store.max_data_in_blob = *sw.rng.pick(&[8u64, 16, 64]);
        plan.store.max_blob_size = 1_000_000;
        plan.store.allow_duplicates = true;
    }
    if profile.contains("deepindex") {
        plan.store.key_len = 200;
    }
    sw.big_values = sw.rng.chance(1, 6);
    let deep = profile.contains("deepindex");
    if deep {
        // hundreds of 200-byte keys per blob: the on-disk B+tree gets inner levels (fan-out ~20),
        // version runs cross 4 KiB leaf blocks; blobs are dumped and reloaded by deletes
        plan.store.key_len = 200;
        plan.n_keys = 120;
        sw.n_keys = 120;
        plan.store.max_data_in_blob = *sw.rng.pick(&[150u64, 400, 1000]);
        plan.store.max_blob_size = 10_000_000;
        plan.store.deferred_min_ms = 100;
        plan.store.deferred_max_ms = 300;
        plan.check_each_step = false;
        sw.big_values = false;
    }
    let mut ops = Vec::new();
    if deep {
        let n = sw.rng.range(200, 700) as usize;
        for i in 0..n {
            let uid = sw.uid();
            // a few hot keys get long version runs, the rest are spread over the whole key space
            let key = if sw.rng.chance(1, 5) { sw.rng.below(3) as u8 } else { sw.rng.below(120) as u8 };
            let kind = if sw.rng.chance(1, 12) { OpKind::Delete { key, ts: sw.ts(), meta: None, only_if_presented: sw.rng.chance(1, 2) } } else { OpKind::Write { key, ts: sw.ts(), len: sw.rng.range(4, 24) as u32, meta: sw.meta() } };
            ops.push(Op { uid, think_ms: 0, kind });
            if i % 97 == 96 {
                let uid = sw.uid();
                ops.push(Op { uid, think_ms: 0, kind: match sw.rng.below(4) { 0 => OpKind::TryClose, 1 => OpKind::Idle { ms: 1_000 }, 2 => OpKind::Restart { lazy: sw.rng.chance(1, 2), damage: vec![] }, _ => OpKind::CheckNow } });
            }
        }
        let uid = sw.uid();
        ops.push(Op { uid, think_ms: 0, kind: OpKind::TryClose });
        let uid = sw.uid();
        ops.push(Op { uid, think_ms: 0, kind: OpKind::Idle { ms: 1_000 } });
        let uid = sw.uid();
        ops.push(Op { uid, think_ms: 0, kind: OpKind::CheckNow });
        let uid = sw.uid();
        ops.push(Op { uid, think_ms: 0, kind: OpKind::Restart { lazy: sw.rng.chance(1, 2), damage: if sw.rng.chance(1, 2) { vec![AtRest::IndexRemove { blob: 0 }] } else { vec![] } } });
        let uid = sw.uid();
        ops.push(Op { uid, think_ms: 0, kind: OpKind::CheckNow });
    } else {
        for _ in 0..n_ops {
            let mut op = gen_op(&mut sw, &mix, plan.store.key_len);
            if profile.contains("filter") {
                if let OpKind::Restart { damage, .. } = &mut op.kind {
                    // filters are read back from index files, or rebuilt when the file is gone
                    if sw.rng.chance(1, 2) {
                        damage.push(AtRest::IndexRemove { blob: sw.rng.below(8) as usize });
                    }
                }
            }
            ops.push(op);
        }
    }
    let mut s = SessionPlan::sequential(ops);
    s.lazy_init = sw.rng.chance(1, 5);
    plan.sessions.push(s);
    if profile.contains("filter") && sw.rng.chance(1, 3) {
        // the storage is reopened with another bloom configuration (other hasher count, same or other
        // size limits): filters read back from index files meet filters built under the new one
        if let Some(b) = plan.store.bloom.clone() {
            let mut alt = b.clone();
            alt.hashers = match sw.rng.below(3) { 0 => b.hashers + 1, 1 => b.hashers.saturating_sub(1).max(1), _ => b.hashers + 2 };
            if sw.rng.chance(1, 3) {
                alt.max_bits = *sw.rng.pick(&[64usize, 100, 4096]);
            }
            let off = sw.rng.chance(1, 3);
            if let Some(s0) = plan.sessions.first_mut() {
                s0.bloom_alt = Some(alt);
                s0.bloom_alt_off = off;
            }
        }
    }
    if profile.split('+').any(|f| f == "readfault") {
        // EIO on the n-th read of an index file (bloom bytes probed from the file after an offload,
        // on-disk index lookups): a query may fail, it must never answer "absent" for a stored key
        for _ in 0..sw.rng.range(1, 4) {
            plan.faults.push(FaultSpec { session: 0, sel: Sel::Nth { kind: IoKind::Read, class: PathClass::Index, n: sw.rng.below(150) }, action: FaultAction::Fail { errno: crate::world::EIO } });
        }
    }
    if profile.split('+').any(|f| f == "opreadfault") {
        // EIO on the n-th read that is not one of the checker's own queries: index loads (delete into a
        // dumped closed blob, restore of a dumped blob), index dumps, background work. The operation hit
        // may fail; whatever fallback it takes, no answer may change
        // exactly one: the statements speak of a single failing file operation (two read errors in a row -
        // index load, then the fallback scan of the blob - leave the blob's index empty; see DESIGN 13.8)
        for _ in 0..1 {
            let class = if sw.rng.chance(3, 4) { PathClass::Index } else { PathClass::Any };
            let span = if sw.rng.chance(1, 2) { 6 } else { 40 };
            let n = sw.rng.below(span);
            plan.faults.push(FaultSpec { session: 0, sel: Sel::NthOpRead { class, n }, action: FaultAction::Fail { errno: crate::world::EIO } });
        }
    }
    plan
}

pub fn gen_damage(rng: &mut Rng) -> Vec<AtRest> {
    let mut d = Vec::new();
    let n = match rng.below(10) {
        0..=1 => 0,
        2..=7 => 1,
        _ => 2,
    };
    for _ in 0..n {
        let blob = rng.below(8) as usize;
        d.push(match rng.below(12) {
            0 | 1 => AtRest::IndexRemove { blob },
            2 | 3 | 4 => AtRest::IndexTruncateFrac { blob, permille: rng.below(1000) as u32 },
            5 => AtRest::IndexTruncate { blob, len: rng.range(0, 200) },
            6 => AtRest::IndexHeaderOnly { blob },
            7 | 8 => AtRest::IndexClearWritten { blob },
            _ => AtRest::IndexStale { blob },
        });
    }
    d
}

/// Multi-restart histories with damage to index files between the sessions (C03).
pub fn gen_restart(property: &str, profile: &str, seed: u64) -> Plan {
    let (mut plan, mut sw) = base_plan(property, profile, seed);
    // closed blobs must exist and be indexed: small blobs, short dump deferral
    plan.store.max_data_in_blob = *sw.rng.pick(&[1u64, 2, 2, 3, 4, 6]);
    if sw.rng.chance(1, 2) {
        plan.store.deferred_min_ms = 100;
        plan.store.deferred_max_ms = 300;
    }
    let sweep = profile.contains("sweep");
    // a fifth of the random runs: one record per blob and a long history, so that the directory holds
    // well over ten blobs (two-digit ids) when it is reopened
    let many_blobs = !sweep && sw.rng.chance(1, 5);
    if many_blobs {
        plan.store.max_data_in_blob = 1;
    }
    let n_ops = if many_blobs { sw.rng.range(30, 70) } else { sw.rng.range(6, if sweep { 25 } else { 45 }) } as usize;
    let mix = Mix { write: 50, delete: 22, idle: 6, lifecycle: 0, lifecycle_bg: 0, force: 0, free: 0, offload: 0, fsync: 0, restart: 0, clock: 0 };
    let mut ops = Vec::new();
    for i in 0..n_ops {
        if i > 2 && sw.rng.chance(1, 7) && !sweep {
            let uid = sw.uid();
            ops.push(Op { uid, think_ms: 0, kind: OpKind::Restart { lazy: sw.rng.chance(1, 2), damage: gen_damage(&mut sw.rng) } });
        } else {
            ops.push(gen_op(&mut sw, &mix, plan.store.key_len));
        }
    }
    let uid = sw.uid();
    if sweep {
        let max_cuts = if profile.contains("full") { 6000 } else { 40 };
        ops.push(Op { uid, think_ms: 0, kind: OpKind::RestartSweep { lazy: sw.rng.chance(1, 2), blob: sw.rng.below(8) as usize, max_cuts } });
    } else {
        ops.push(Op { uid, think_ms: 0, kind: OpKind::Restart { lazy: sw.rng.chance(1, 2), damage: gen_damage(&mut sw.rng) } });
    }
    // a few operations after the last reopen: new blobs must get fresh ids, writes must work
    for _ in 0..sw.rng.range(1, 6) {
        ops.push(gen_op(&mut sw, &mix, plan.store.key_len));
    }
    let mut s = SessionPlan::sequential(ops);
    s.lazy_init = sw.rng.chance(1, 5);
    plan.sessions.push(s);
    plan
}

pub fn gen_plan(property: &str, profile: &str, seed: u64) -> Plan {
    let base = profile.split('+').next().unwrap_or(profile);
    match base {
        "seq" | "seq-maint" | "seq-manyversions" | "seq-deepindex" | "seq-filter" => gen_seq(property, profile, seed),
        "restart" | "restart-sweep" | "restart-sweep-full" => gen_restart(property, profile, seed),
        _ => crate::gen2::gen_plan2(property, profile, seed),
    }
}

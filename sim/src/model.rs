//! Reference model: the literal text of C01/C02 evaluated over the physical record list.
//! No I/O, no concurrency. Rank = (timestamp desc, blob id desc, append position desc).

use crate::world::PhysRec;
use std::collections::{BTreeMap, BTreeSet};

#[derive(Clone, Debug, PartialEq)]
pub enum MRead<'a> {
    Found(&'a PhysRec),
    Deleted(u64),
    NotFound,
}

impl<'a> MRead<'a> {
    pub fn class(&self) -> &'static str {
        match self {
            MRead::Found(_) => "Found",
            MRead::Deleted(_) => "Deleted",
            MRead::NotFound => "NotFound",
        }
    }
}

pub struct View<'a> {
    /// records that count: complete records of blobs attached to the storage
    pub recs: Vec<&'a PhysRec>,
}

impl<'a> View<'a> {
    pub fn new(phys: &'a BTreeMap<usize, Vec<PhysRec>>, attached: &BTreeSet<usize>) -> Self {
        let mut recs = Vec::new();
        for (b, v) in phys {
            if attached.contains(b) {
                for r in v {
                    if r.complete && r.header_crc_ok {
                        recs.push(r);
                    }
                }
            }
        }
        View { recs }
    }

    pub fn from_recs(recs: Vec<&'a PhysRec>) -> Self {
        View { recs }
    }

    /// all records of the key in rank order
    pub fn ranked(&self, key: &[u8]) -> Vec<&'a PhysRec> {
        let mut v: Vec<&PhysRec> = self.recs.iter().copied().filter(|r| r.key == key).collect();
        v.sort_by(|a, b| b.ts.cmp(&a.ts).then(b.blob.cmp(&a.blob)).then(b.offset.cmp(&a.offset)));
        v
    }

    /// rank order cut immediately after the first deletion marker
    pub fn read_all_with_marker(&self, key: &[u8]) -> Vec<&'a PhysRec> {
        let mut v = self.ranked(key);
        if let Some(p) = v.iter().position(|r| r.deleted) {
            v.truncate(p + 1);
        }
        v
    }

    pub fn read_all(&self, key: &[u8]) -> Vec<&'a PhysRec> {
        let mut v = self.read_all_with_marker(key);
        if v.last().map(|r| r.deleted).unwrap_or(false) {
            v.pop();
        }
        v
    }

    pub fn read(&self, key: &[u8]) -> MRead<'a> {
        match self.ranked(key).first() {
            None => MRead::NotFound,
            Some(r) if r.deleted => MRead::Deleted(r.ts),
            Some(r) => MRead::Found(r),
        }
    }

    pub fn read_with(&self, key: &[u8], meta_raw: &BTreeMap<String, Vec<u8>>) -> MRead<'a> {
        let list = self.read_all_with_marker(key);
        for r in &list {
            if r.deleted {
                break;
            }
            if r.meta_map().as_ref() == Some(meta_raw) {
                return MRead::Found(r);
            }
        }
        match list.last() {
            Some(r) if r.deleted => MRead::Deleted(r.ts),
            _ => MRead::NotFound,
        }
    }

    /// is the key live (blob-local winner is a put) in this blob?
    pub fn live_in_blob(&self, key: &[u8], blob: usize) -> bool {
        let mut best: Option<&PhysRec> = None;
        for r in self.recs.iter().filter(|r| r.blob == blob && r.key == key) {
            best = match best {
                None => Some(r),
                Some(b) => {
                    if (r.ts, r.offset) > (b.ts, b.offset) {
                        Some(r)
                    } else {
                        Some(b)
                    }
                }
            };
        }
        matches!(best, Some(r) if !r.deleted)
    }

    pub fn blobs_with_key(&self, key: &[u8]) -> BTreeSet<usize> {
        self.recs.iter().filter(|r| r.key == key).map(|r| r.blob).collect()
    }
}

#[cfg(test)]
mod tests {
    use super::*;
    fn rec(blob: usize, offset: u64, key: u8, ts: u64, deleted: bool) -> PhysRec {
        PhysRec {
            blob,
            offset,
            key: vec![key],
            ts,
            deleted,
            meta_size: 8,
            data_size: 0,
            meta_raw: vec![0; 8],
            data: vec![],
            data_crc_field: 0,
            header_crc_ok: true,
            blob_offset_field: offset,
            complete: true,
            bytes_written: 0,
            total_len: 0,
            seq: 0,
            done_seq: 0,
            tag: None,
        }
    }

    #[test]
    fn delete_middle_three_blobs() {
        // tests/tests.rs: read_all_with_deletion_marker_delete_middle_different_blobs
        let recs = vec![rec(0, 20, 1, 10, false), rec(1, 20, 1, 20, true), rec(2, 20, 1, 30, false)];
        let v = View::from_recs(recs.iter().collect());
        let l = v.read_all_with_marker(&[1]);
        assert_eq!(l.len(), 2);
        assert!(!l[0].deleted && l[1].deleted);
        assert_eq!(v.read_all(&[1]).len(), 1);
        assert!(matches!(v.read(&[1]), MRead::Found(r) if r.ts == 30));
    }

    #[test]
    fn ties_prefer_newer_blob_then_later_append() {
        let recs = vec![rec(0, 20, 1, 10, false), rec(0, 90, 1, 10, true), rec(1, 20, 1, 10, false)];
        let v = View::from_recs(recs.iter().collect());
        assert!(matches!(v.read(&[1]), MRead::Found(r) if r.blob == 1));
        let v0 = View::from_recs(recs[..2].iter().collect());
        assert!(matches!(v0.read(&[1]), MRead::Deleted(10)));
        assert!(!v0.live_in_blob(&[1], 0));
    }
}

//! Specs of the fault / crash / concurrency / tools checks.

use crate::batch::CheckSpec;

pub fn spec_for2(_property: &str) -> Option<CheckSpec> {
    None
}

//! Specs of the fault / crash / cancellation / stored-byte / concurrency / liveness / tools checks.

use crate::batch::{CheckSpec, ProfileSpec};
use crate::exec::RunOutcome;
use crate::plan::*;

fn p(name: &'static str, weight: u32) -> ProfileSpec {
    ProfileSpec { name, weight }
}

fn data_ops(plan: &Plan) -> usize {
    plan.sessions.iter().flat_map(|s| s.clients.iter().flatten()).filter(|o| matches!(o.kind, OpKind::Write { .. } | OpKind::Delete { .. })).count()
}

fn nt_crash(plan: &Plan, out: &RunOutcome) -> bool {
    // the crash fired, and it found in-flight or un-synced state (a torn tail, a rejected blob or lost bytes)
    out.fired.get("kill") >= 1 && data_ops(plan) >= 3 && (out.probes.get("blob_quarantined_after_crash") + out.probes.get("power_loss_lost_bytes") + out.probes.get("fault_fired_inside_operation") >= 1)
}

fn nt_fault(plan: &Plan, out: &RunOutcome) -> bool {
    let fired: u64 = ["write_err", "short_write", "sync_err", "create_err", "open_err"].iter().map(|k| out.fired.get(k)).sum();
    fired >= 1 && data_ops(plan) >= 3 && out.probes.get("fault_fired_inside_operation") >= 1
}

fn nt_cancel(plan: &Plan, out: &RunOutcome) -> bool {
    out.fired.get("cancel") >= 1 && data_ops(plan) >= 3
}

fn nt_bitflip(plan: &Plan, out: &RunOutcome) -> bool {
    let flips: u64 = ["bitflip_data", "bitflip_meta", "bitflip_rec_header", "bitflip_blob_header"].iter().map(|k| out.fired.get(k)).sum();
    data_ops(plan) >= 2 && (flips >= 1 || plan.profile.contains("clean"))
}

const A_COMMON: [&str; 3] = [
    "interleaving granularity is the await point plus the buggify yield sites; two blocking closures never overlap inside their bodies",
    "sampling, not enumeration: a clean batch is evidence, not proof; sweeps are exhaustive only over the fault sites of the sampled histories (capped per history in the quick tier)",
    "directory operations during init (read_dir, rename, create_dir, remove_file) are real tokio::fs calls, not faulted",
];

pub fn spec_for2(property: &str) -> Option<CheckSpec> {
    let mut a = A_COMMON.to_vec();
    Some(match property {
        "C05" => CheckSpec {
            property: "C05".into(),
            level: "fault_enumeration",
            profiles: vec![p("bitflip", 8), p("bitflip-clean", 2), p("bitflip-sweep", 3)],
            thorough_extra: vec![p("bitflip-sweep-full", 3)],
            quick_runs: 6_000,
            thorough_runs: 300_000,
            quick_budget_s: 75,
            thorough_budget_s: 600,
            nontrivial_rule: "sequential histories whose value lengths are biased to every threshold (0,1, 4096-header-meta +-60, 81920-header +-40, 200 KiB) with metas of 0..2 entries in both I/O modes: every acknowledged write must have stored exactly the written bytes (tap) and every read path (read, read_with, read_all + load) must return them. Then one burst of <= 32 bits is flipped in a stored record (classes data / meta / record header / blob header; position and pattern seeded) either under the open storage (index in memory or on disk) or between sessions (index kept or removed, data validation on or off). Oracle: a record whose stored bytes were altered is never returned with altered bytes: its reads fail, or its blob is quarantined at start-up; untouched blobs are never quarantined. CRC32C detects every burst <= 32 bits, so the oracle is exact. Non-trivial = a flip was applied (or clean round-trip profile) with >= 2 data operations; distinct = distinct I/O event signature",
            nontrivial: nt_bitflip,
            assumptions: a,
            expected_probes: vec!["bitflip_data", "bitflip_meta", "bitflip_rec_header"],
        },
        "C06" => {
            a.push("crash model: kill = the process dies at a chosen mutating I/O event which is applied fully, partially (k bytes) or not at all; afterwards the disk is dead and every task, lock and pending simulated job is discarded. Power loss = kill, then each file is rebuilt from its content at the last successful sync plus a prefix of the writes issued since (optionally with the last <= 512 bytes zeroed or garbage); directory entries of created files and renames are durable when performed");
            CheckSpec {
                property: "C06".into(),
                level: "fault_enumeration",
                profiles: vec![p("crash-kill", 4), p("crash-power", 3), p("crash-sweep-kill", 2), p("crash-sweep-power", 1), p("crash-conc", 2), p("crash-double", 2), p("crash-power-index", 2)],
                thorough_extra: vec![],
                quick_runs: 4_000,
                thorough_runs: 100_000,
                quick_budget_s: 90,
                thorough_budget_s: 600,
                nontrivial_rule: "three-session runs: a seeded history (rotation, deletes into closed blobs, dumps in flight) is cut by one crash, recovery, writes after recovery, clean restart, more writes, restart with or without index files; validate_data and ignore_corrupted vary per session. Random runs draw the crash event and the partial-write length; crash-power-index runs lose power while an index file is being written and one of its un-synced writes is lost while later ones survive (a disk does not order un-synced writes: PowerCut.lost_write, also drawn in a quarter of the other power-loss runs); crash-double runs have two crashes (a process kill, then a power loss in the recovery session: bytes that survived the kill un-synced are lost by the second crash unless something synced them); crash-conc runs cut a session of concurrent clients (several operations in flight, closures interleaved at I/O-call granularity in half of them); sweep runs re-run the same history once per (mutating I/O event x kept-bytes in {0,1,header,header+meta,len-1,all}) (capped at 160 sites per history in the quick tier). Oracle: init Ok; only blobs with a torn, in-flight or un-synced tail may be quarantined/ignored; every query equals the model over the complete records of attached blobs after recovery and after every later step and restart; a blob that recovery accepted is never rejected by a later start after a clean close (power-loss victims exempt); a blob whose index file is complete in the image that survives a power loss has every byte the index describes; kill model: acknowledged records of a rejected blob are served by a storage opened on recovery_blob's output. Non-trivial = the crash fired and met in-flight, torn or un-synced state; distinct = distinct I/O event signature",
                nontrivial: nt_crash,
                assumptions: a,
                expected_probes: vec!["session_killed", "blob_quarantined_after_crash", "recovery_tool_run", "power_loss_lost_bytes", "torn_tail"],
            }
        }
        "C11" => CheckSpec {
            property: "C11".into(),
            level: "fault_enumeration",
            profiles: vec![p("iofault", 6), p("iofault-sweep", 3)],
            thorough_extra: vec![],
            quick_runs: 4_000,
            thorough_runs: 100_000,
            quick_budget_s: 90,
            thorough_budget_s: 600,
            nontrivial_rule: "sequential histories with rotation, dumps and deletes into closed blobs; random runs arm 1..2 faults (n-th create/open/write/sync on blob or index files, ENOSPC or EIO, short writes keeping 1, half or len-1 bytes); sweep runs re-run one history once per (mutating I/O event x {ENOSPC, EIO, short 1, short half, short len-1}) (capped at 160 sites per history in the quick tier). Oracle: an acknowledged write always has a complete record; after each step, after 60 simulated seconds and after a clean restart every query equals the model (records of failed operations may or may not be visible, never other data); an operation may fail only if a fault fired while it ran; the rotation probe succeeds after the faults; only blobs with a failed or partial write may be quarantined at restart; no task panics. Non-trivial = a fault fired inside an operation of a history with >= 3 data operations; distinct = distinct I/O event signature",
            nontrivial: nt_fault,
            assumptions: a,
            expected_probes: vec!["write_err", "short_write", "sync_err", "create_err", "probe_rotated"],
        },
        "C14" => CheckSpec {
            property: "C14".into(),
            level: "fault_enumeration",
            profiles: vec![p("cancel", 6), p("cancel-sweep", 3)],
            thorough_extra: vec![],
            quick_runs: 4_000,
            thorough_runs: 100_000,
            quick_budget_s: 90,
            thorough_budget_s: 600,
            nontrivial_rule: "sequential histories in which operation futures (write in three size classes, delete into active/closed blobs, reads, try_close/create/restore, fsyncdata, free_excess_resources) are polled k times and dropped, in both I/O modes; sweep runs re-run one history once per (operation x k in 0..13). Detached simulated jobs then run under the scheduler; further operations, a restart with or without index files, more operations. Oracle: the cancelled operation is all-or-nothing (its complete records may or may not be visible until the restart, never a partial record), every other acknowledged record reads back, later operations succeed, no blob is quarantined at the restart, model equality afterwards. Non-trivial = a future was dropped before completion in a history with >= 3 data operations; distinct = distinct I/O event signature",
            nontrivial: nt_cancel,
            assumptions: a,
            expected_probes: vec!["cancel", "detached_job_outlived_future", "optional_record_from_failed_or_cancelled_op"],
        },
        _ => return crate::checks3::spec_for3(property),
    })
}

//! Concurrent clients on a LocalSet: every client is a task; the scheduler is tokio's
//! current-thread queue whose wake-up order is decided by simulated latencies and think times.

use crate::exec::*;
use crate::session::*;
use crate::world::Violation;
use pearl::{Key, Storage};
use std::rc::Rc;
use std::time::Duration;

/// Returns Some(outcome) if the session ended here (kill / hang), None to go on to `finish`.
pub async fn run_clients<K>(ctx: &Rc<RunCtx>, storage: Rc<Storage<K>>, si: usize) -> Option<SessionOutcome>
where
    for<'a> K: Key<'a> + AsRef<K> + 'static,
{
    let plan = ctx.plan.clone();
    let world = ctx.world.clone();
    let n = plan.sessions[si].clients.len();
    let mut handles = Vec::new();
    for ci in 0..n {
        let ctx2 = ctx.clone();
        let st = storage.clone();
        let plan2 = plan.clone();
        handles.push(tokio::task::spawn_local(async move {
            let ops = &plan2.sessions[si].clients[ci];
            for op in ops.iter() {
                if ctx2.world.kill_flag.get() {
                    break;
                }
                if op.think_ms > 0 {
                    tokio::time::sleep(Duration::from_millis(op.think_ms)).await;
                }
                exec_op_checked::<K>(&ctx2, &st, op, ci as u32 + 1, false, si).await;
            }
            drop(st);
        }));
    }
    // C12 runs: the dirty-byte bound is looked at whenever the storage falls quiet between client
    // operations, not only at the end of the session (an accounting error made by a write that raced
    // with a sync is repaired by the next sync)
    let monitor = if plan.property == "C12" && si == 0 && !plan.sessions[si].lazy_init {
        let ctx3 = ctx.clone();
        let st3 = storage.clone();
        Some(tokio::task::spawn_local(async move {
            loop {
                tokio::time::sleep(Duration::from_millis(5)).await;
                if !crate::oracle::settle(&ctx3).await {
                    continue;
                }
                let restored = ctx3.history.borrow().iter().any(|h| h.session == si && matches!(h.kind, crate::plan::OpKind::TryRestore | crate::plan::OpKind::RestoreBg) && !matches!(h.result, OpResult::Err(_) | OpResult::Skipped));
                if restored || ctx3.world.kill_flag.get() {
                    break;
                }
                ctx3.world.probe("dirty_bound_checked_between_operations");
                let nviol = ctx3.violations.borrow().len();
                crate::oracle::check_dirty_bound(&ctx3, &st3).await;
                if ctx3.violations.borrow().len() > nviol {
                    // tentative: the worker may be in the middle of a request that ends with a sync
                    // (a rotation waiting for the storage lock does no I/O for a while). It is a verdict
                    // only if nothing at all happens during another quiet period
                    let tentative: Vec<Violation> = ctx3.violations.borrow_mut().drain(nviol..).collect();
                    let seq0 = ctx3.world.seq();
                    let still_quiet = crate::oracle::settle(&ctx3).await && crate::oracle::settle(&ctx3).await && ctx3.world.seq() == seq0;
                    if still_quiet {
                        ctx3.violations.borrow_mut().extend(tentative);
                    } else {
                        ctx3.world.probe("dirty_bound_tentative_dropped");
                    }
                }
                if !ctx3.violations.borrow().is_empty() {
                    break;
                }
            }
            drop(st3);
        }))
    } else {
        None
    };
    drop(storage);
    let notify = world.kill_notify.clone();
    let all = async {
        for h in handles.iter_mut() {
            let _ = h.await;
        }
    };
    let outcome = tokio::select! {
        biased;
        _ = notify.notified() => if world.hung_flag.get() { Some(SessionOutcome::Hung("clients (busy-waiting)".into())) } else { Some(SessionOutcome::Killed) },
        _ = all => None,
        _ = tokio::time::sleep(Duration::from_secs(4 * 3600)) => Some(SessionOutcome::Hung("clients".into())),
    };
    match &outcome {
        Some(SessionOutcome::Hung(_)) => {
            let pending = handles.iter().filter(|h| !h.is_finished()).count();
            let how = if world.hung_flag.get() { "some tasks busy-wait while nothing makes progress (4 million polls without an I/O event or a completed operation)" } else { "nothing was runnable for 4 simulated hours" };
            ctx.violate(&["C08", "C13"], "deadlock", "client operations never complete: the storage is deadlocked", format!("session {} pending clients {} of {}; {}; channel capacity {}", si, pending, n, how, plan.sched.channel_cap));
            for h in handles.iter() {
                h.abort();
            }
        }
        Some(SessionOutcome::Killed) => {
            for h in handles.iter() {
                h.abort();
            }
        }
        _ => {}
    }
    if let Some(m) = monitor {
        m.abort();
        let _ = m.await;
    }
    if outcome.is_none() && world.kill_flag.get() {
        return Some(SessionOutcome::Killed);
    }
    outcome
}

//! Faults applied to files at rest (between sessions / around a clean restart) and the
//! power-loss image builder.

use crate::exec::*;
use crate::plan::*;
use crate::world::*;
use std::collections::BTreeMap;
use std::rc::Rc;

pub const INDEX_HEADER_LEN: usize = 83;
pub const INDEX_VERSION_BYTE: usize = 72;

fn index_name(blob: usize) -> String {
    format!("{}.{}.index", PREFIX, blob)
}
fn blob_name(blob: usize) -> String {
    format!("{}.{}.blob", PREFIX, blob)
}

fn live_content(ctx: &RunCtx, name: &str) -> Option<Vec<u8>> {
    let w = ctx.world.inner.borrow();
    let sh = w.shadows.get(name)?;
    if sh.removed || sh.quarantined {
        return None;
    }
    Some(sh.content.clone())
}

/// Pick an existing blob id: `want` modulo the number of attached blobs.
fn pick_blob(ctx: &RunCtx, want: usize, need_index: bool) -> Option<usize> {
    let att: Vec<usize> = ctx.attached().into_iter().filter(|b| !need_index || live_content(ctx, &index_name(*b)).map(|c| !c.is_empty()).unwrap_or(false)).collect();
    if att.is_empty() {
        return None;
    }
    Some(att[want % att.len()])
}

pub fn save_index_copies(ctx: &Rc<RunCtx>) {
    let att = ctx.attached();
    for b in att {
        if let Some(c) = live_content(ctx, &index_name(b)) {
            if !c.is_empty() {
                let mut saved = ctx.saved_indexes.borrow_mut();
                saved.entry(b).or_insert(c);
            }
        }
    }
}

pub fn apply_at_rest(ctx: &Rc<RunCtx>, damages: &[AtRest]) {
    let world = ctx.world.clone();
    for d in damages {
        match d {
            AtRest::IndexRemove { blob } => {
                if let Some(b) = pick_blob(ctx, *blob, true) {
                    world.set_file_content(&index_name(b), None);
                    world.inner.borrow_mut().fired.bump("index_remove");
                }
            }
            AtRest::IndexTruncate { blob, len } => {
                if let Some(b) = pick_blob(ctx, *blob, true) {
                    let mut c = live_content(ctx, &index_name(b)).unwrap();
                    if (*len as usize) < c.len() {
                        c.truncate(*len as usize);
                        world.set_file_content(&index_name(b), Some(c));
                        world.inner.borrow_mut().fired.bump("index_truncate");
                    }
                }
            }
            AtRest::IndexTruncateFrac { blob, permille } => {
                if let Some(b) = pick_blob(ctx, *blob, true) {
                    let mut c = live_content(ctx, &index_name(b)).unwrap();
                    let len = (c.len() as u64 * (*permille as u64).min(999) / 1000) as usize;
                    c.truncate(len);
                    world.set_file_content(&index_name(b), Some(c));
                    world.inner.borrow_mut().fired.bump("index_truncate");
                }
            }
            AtRest::IndexHeaderOnly { blob } => {
                if let Some(b) = pick_blob(ctx, *blob, true) {
                    let mut c = live_content(ctx, &index_name(b)).unwrap();
                    c.truncate(INDEX_HEADER_LEN);
                    world.set_file_content(&index_name(b), Some(c));
                    world.inner.borrow_mut().fired.bump("index_header_only");
                }
            }
            AtRest::IndexClearWritten { blob } => {
                if let Some(b) = pick_blob(ctx, *blob, true) {
                    let mut c = live_content(ctx, &index_name(b)).unwrap();
                    if c.len() > INDEX_VERSION_BYTE {
                        c[INDEX_VERSION_BYTE] &= !1;
                        world.set_file_content(&index_name(b), Some(c));
                        world.inner.borrow_mut().fired.bump("index_clear_written");
                    }
                }
            }
            AtRest::IndexBodyZero { blob, from_permille, len } => {
                if let Some(b) = pick_blob(ctx, *blob, true) {
                    let mut c = live_content(ctx, &index_name(b)).unwrap();
                    if c.len() > INDEX_HEADER_LEN + 1 {
                        let body = c.len() - INDEX_HEADER_LEN;
                        let start = INDEX_HEADER_LEN + (body as u64 * (*from_permille as u64).min(999) / 1000) as usize;
                        let end = (start + (*len as usize).max(1)).min(c.len());
                        let changed = c[start..end].iter().any(|x| *x != 0);
                        for x in c[start..end].iter_mut() {
                            *x = 0;
                        }
                        if changed {
                            world.set_file_content(&index_name(b), Some(c));
                            world.inner.borrow_mut().fired.bump("index_body_zeroed");
                        }
                    }
                }
            }
            AtRest::IndexStale { blob } => {
                // an older index of the same blob (describing a shorter blob)
                let cands: Vec<usize> = ctx.saved_indexes.borrow().keys().copied().filter(|b| ctx.attached().contains(b)).collect();
                if !cands.is_empty() {
                    let b = cands[*blob % cands.len()];
                    let old = ctx.saved_indexes.borrow().get(&b).cloned().unwrap();
                    let cur = live_content(ctx, &index_name(b));
                    if cur.as_ref() != Some(&old) {
                        world.set_file_content(&index_name(b), Some(old));
                        world.inner.borrow_mut().fired.bump("index_stale");
                    }
                }
            }
            AtRest::BitFlip { blob, rec, class, off, mask } => {
                if let Some(b) = pick_blob(ctx, *blob, false) {
                    apply_bitflip(ctx, b, *rec, *class, *off, *mask);
                }
            }
            AtRest::BlobTruncate { blob, len } => {
                if let Some(b) = pick_blob(ctx, *blob, false) {
                    let mut c = live_content(ctx, &blob_name(b)).unwrap();
                    if (*len as usize) < c.len() {
                        c.truncate(*len as usize);
                        world.set_file_content(&blob_name(b), Some(c.clone()));
                        world.reparse_blob(b, &c);
                        world.inner.borrow_mut().fired.bump("blob_truncate");
                    }
                }
            }
        }
    }
}

/// Flip a <=32-bit burst inside one stored record. Returns the (blob, record offset) hit.
pub fn apply_bitflip(ctx: &Rc<RunCtx>, blob: usize, rec: usize, class: ByteClass, off: u32, mask: u32) -> Option<(usize, u64)> {
    let world = ctx.world.clone();
    let name = blob_name(blob);
    let mut content = live_content(ctx, &name)?;
    let key_len = ctx.key_len;
    let (rec_off, region): (u64, (usize, usize)) = {
        let w = world.inner.borrow();
        let recs = w.phys.get(&blob)?;
        let complete: Vec<&PhysRec> = recs.iter().filter(|r| r.complete).collect();
        if complete.is_empty() && class != ByteClass::BlobHeader {
            return None;
        }
        match class {
            ByteClass::BlobHeader => (0, (0, BLOB_HEADER_LEN)),
            _ => {
                let r = complete[rec % complete.len()];
                let hl = record_header_len(key_len);
                let s = r.offset as usize;
                let reg = match class {
                    ByteClass::RecHeader => (s, s + hl),
                    ByteClass::Meta => (s + hl, s + hl + r.meta_size as usize),
                    _ => (s + hl + r.meta_size as usize, s + hl + (r.meta_size + r.data_size) as usize),
                };
                (r.offset, reg)
            }
        }
    };
    let (start, end) = region;
    if end <= start || end > content.len() {
        return None;
    }
    let mask = if mask == 0 { 1 } else { mask };
    let pos = start + (off as usize % (end - start));
    let mb = mask.to_le_bytes();
    let mut changed = false;
    for i in 0..4 {
        if pos + i < end && mb[i] != 0 {
            content[pos + i] ^= mb[i];
            changed = true;
        }
    }
    if !changed {
        content[pos] ^= 1;
    }
    world.set_file_content(&name, Some(content));
    {
        let mut w = world.inner.borrow_mut();
        w.fired.bump(match class {
            ByteClass::BlobHeader => "bitflip_blob_header",
            ByteClass::RecHeader => "bitflip_rec_header",
            ByteClass::Meta => "bitflip_meta",
            ByteClass::Data => "bitflip_data",
        });
    }
    ctx.damaged.borrow_mut().push((blob, rec_off, class));
    Some((blob, rec_off))
}

/// After a kill: rebuild every file from its durable content plus a prefix of the un-synced writes.
pub fn build_power_loss_image(ctx: &Rc<RunCtx>, cut: &PowerCut) {
    let world = ctx.world.clone();
    let names: Vec<String> = {
        let w = world.inner.borrow();
        w.shadows.iter().filter(|(n, s)| !n.contains('/') && !s.removed && !s.quarantined).map(|(n, _)| n.clone()).collect()
    };
    let before: BTreeMap<String, Vec<u8>> = {
        let w = world.inner.borrow();
        names.iter().map(|n| (n.clone(), w.shadows[n].content.clone())).collect()
    };
    // the file with the most recent un-synced write gets the partial cut
    let victim: Option<String> = {
        let w = world.inner.borrow();
        names.iter().filter(|n| !w.shadows[*n].pending.is_empty()).max_by_key(|n| w.shadows[*n].last_write_seq).cloned()
    };
    for name in names {
        let (durable, pending, full_len) = {
            let w = world.inner.borrow();
            let s = &w.shadows[&name];
            (s.durable.clone(), s.pending.clone(), s.content.len())
        };
        if pending.is_empty() {
            continue;
        }
        let total_pending: u64 = pending.iter().map(|(_, d)| d.len() as u64).sum();
        let keep: u64 = if Some(&name) == victim.as_ref() {
            match cut.keep_bytes {
                Some(b) => b.min(total_pending),
                None => total_pending * (cut.keep_permille.min(1000) as u64) / 1000,
            }
        } else if cut.others_keep_all {
            total_pending
        } else {
            0
        };
        let mut img = durable.clone();
        let mut left = keep;
        let mut tail_region: Option<(usize, usize)> = None;
        // a lost write in the middle: everything else issued to this file survives
        let lost = match cut.lost_write {
            Some(k) if pending.len() >= 2 => Some(k as usize % (pending.len() - 1)),
            _ => None,
        };
        if cut.lost_block.is_some() {
            left = total_pending;
        }
        if lost.is_some() {
            left = total_pending;
            world.inner.borrow_mut().fired.bump("power_loss_lost_write_in_the_middle");
        }
        for (pi, (off, data)) in pending.iter().enumerate() {
            if left == 0 {
                break;
            }
            if Some(pi) == lost {
                // missing entirely (torn == 0: the range comes into existence only through a later
                // write beyond it), or the size update survived without the data (zeros / garbage)
                if cut.torn > 0 {
                    let need = *off as usize + data.len();
                    if img.len() < need {
                        img.resize(need, 0);
                    }
                    for (i, b) in img[*off as usize..need].iter_mut().enumerate() {
                        *b = if cut.torn == 1 { 0 } else { (i as u8).wrapping_mul(37).wrapping_add(11) };
                    }
                    world.inner.borrow_mut().fired.bump("torn_tail");
                }
                continue;
            }
            let n = (data.len() as u64).min(left) as usize;
            let need = *off as usize + n;
            if img.len() < need {
                img.resize(need, 0);
            }
            img[*off as usize..need].copy_from_slice(&data[..n]);
            left -= n as u64;
            tail_region = Some((*off as usize, need));
        }
        if let Some(k) = cut.lost_block {
            // blocks touched by the un-synced writes; the chosen one falls back to its durable content
            let mut blocks: Vec<usize> = pending.iter().flat_map(|(off, d)| ((*off as usize) / 4096..=((*off as usize + d.len().max(1) - 1) / 4096))).collect();
            blocks.sort();
            blocks.dedup();
            if blocks.len() >= 2 {
                let b = blocks[k as usize % blocks.len()];
                let (s0, e0) = (b * 4096, ((b + 1) * 4096).min(img.len()));
                for i in s0..e0 {
                    img[i] = durable.get(i).copied().unwrap_or(0);
                }
                world.inner.borrow_mut().fired.bump("power_loss_lost_block");
            }
        }
        if Some(&name) == victim.as_ref() && cut.torn > 0 {
            if let Some((s, e)) = tail_region {
                let ts = e.saturating_sub(512).max(s);
                for (i, b) in img[ts..e].iter_mut().enumerate() {
                    *b = if cut.torn == 1 { 0 } else { (i as u8).wrapping_mul(37).wrapping_add(11) };
                }
                world.inner.borrow_mut().fired.bump("torn_tail");
            }
        }
        {
            let mut w = world.inner.borrow_mut();
            w.fired.bump("power_loss_file_cut");
            if img.len() < full_len {
                w.probes.bump("power_loss_lost_bytes");
            }
        }
        world.set_file_content(&name, Some(img.clone()));
        if let FileKind::Blob(id) = classify(&name) {
            world.reparse_blob(id, &img);
        }
    }
    world.inner.borrow_mut().fired.bump("power_loss");
    // C06 "blobs closed and indexed before the crash are served in full": an index file that is
    // complete in the surviving image describes a blob length; every byte below that length must
    // have survived as well (the index is written only after the blob was synced)
    for (name, _) in before.iter() {
        let FileKind::Index(id) = classify(name) else { continue };
        let img = { world.inner.borrow().shadows.get(name).map(|s| s.content.clone()).unwrap_or_default() };
        if img.len() < INDEX_HEADER_LEN || img[INDEX_VERSION_BYTE] & 1 == 0 {
            continue;
        }
        let described = u64::from_le_bytes(img[75..83].try_into().unwrap()) as usize;
        let bname = blob_name(id);
        let Some(pre) = before.get(&bname) else { continue };
        let holes = world.inner.borrow().shadows.get(&bname).map(|s| s.has_holes).unwrap_or(false);
        if holes || pre.len() < described {
            continue;
        }
        let post = { world.inner.borrow().shadows.get(&bname).map(|s| s.content.clone()).unwrap_or_default() };
        world.probe("indexed_blob_checked_after_power_loss");
        if post.len() < described || post[..described] != pre[..described] {
            let first = (0..described).find(|i| post.get(*i) != pre.get(*i)).unwrap_or(0);
            ctx.violate_post_mortem(&["C06", "C12"], "indexed-blob-lost-bytes", "a blob whose index file was complete on disk at the power loss lost bytes that the index describes", format!("{} describes {} bytes of {}; the surviving file has {} bytes, first difference at {}", name, described, bname, post.len(), first));
        }
    }
}

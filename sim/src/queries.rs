//! Per-key comparison of every query method with the reference model.
//!
//! Strict phases (step / restart / maintenance / quiescent) use one view: every complete record
//! of every attached blob. Fault phases add, narrowly: *optional* records (physically complete
//! records of operations that returned an error, were cancelled or were in flight at a crash:
//! each may or may not be visible) and *damaged* records (stored bytes altered at rest or torn by
//! a power loss: reading them may fail, their altered bytes must never be returned).

use crate::exec::*;
use crate::model::{MRead, View};
use crate::plan::ByteClass;
use crate::world::*;
use bytes::Bytes;
use pearl::{BloomProvider, Key, ReadResult, Storage};
use std::collections::{BTreeMap, BTreeSet};
use std::rc::Rc;

fn short(b: &[u8]) -> String {
    let n = b.len().min(12);
    format!("{}b:{}", b.len(), b[..n].iter().map(|x| format!("{:02x}", x)).collect::<String>())
}

/// (blob, number of records seen by the tap) for every blob: equal lists = the stored records are the same
pub fn record_counts(ctx: &RunCtx) -> Vec<(usize, usize)> {
    ctx.world.inner.borrow().phys.iter().map(|(b, v)| (*b, v.len())).collect()
}

/// C03, first sentence: close + open yields the same answers as before the close. Both sides are
/// compared with the model; a key whose answers differed from the stored records before the close
/// and agree with them after the reopen was answered differently by the two sessions.
pub fn restart_changed_answers(ctx: &Rc<RunCtx>, what: &str) {
    let Some(before) = ctx.mismatch_before_close.borrow_mut().take() else { return };
    let after = ctx.mismatch_keys_last.borrow().0.clone();
    for k in before.difference(&after) {
        ctx.world.probe("restart_changed_an_answer");
        ctx.violate(&["C03"], "restart-changes-answer", "queries of a key were answered differently before the close and after the reopen (only the answers after the reopen agree with the stored records)", format!("key {} {}", k, what));
    }
}

fn props_for(phase: &str) -> (Vec<&'static str>, Vec<&'static str>) {
    match phase {
        "step" => (vec!["C01"], vec!["C02"]),
        "restart" => (vec!["C03", "C01"], vec!["C03", "C02"]),
        "maintenance" => (vec!["C04", "C01"], vec!["C04", "C02"]),
        "crash" => (vec!["C06"], vec!["C06"]),
        "fault" => (vec!["C11"], vec!["C11"]),
        "cancel" => (vec!["C14"], vec!["C14"]),
        "bitflip" => (vec!["C05"], vec!["C05"]),
        "quiescent" => (vec!["C08", "C01"], vec!["C08", "C02"]),
        _ => (vec!["C01"], vec!["C02"]),
    }
}

struct KeyAnswers {
    read: anyhow::Result<ReadResult<Bytes>>,
    contains: anyhow::Result<ReadResult<u64>>,
    /// (deleted, ts, load result: Ok((data, meta ok?)) / Err(kind))
    all_marker: Result<Vec<(bool, u64, Result<Vec<u8>, String>, Option<BTreeMap<String, Vec<u8>>>, Option<Result<Vec<u8>, String>>)>, String>,
    all: Result<Vec<(bool, u64)>, String>,
    with: Vec<anyhow::Result<ReadResult<Bytes>>>,
    check_filters: Option<bool>,
    check_filter: pearl::FilterResult,
    combined_filter: Option<pearl::FilterResult>,
}

fn is_damaged(ctx: &RunCtx, r: &PhysRec) -> bool {
    !r.data_ok() || ctx.damaged.borrow().iter().any(|(b, o, _)| *b == r.blob && *o == r.offset)
}

fn read_matches(ctx: &RunCtx, exp: &MRead, got: &anyhow::Result<ReadResult<Bytes>>, tolerant: bool) -> bool {
    match (exp, got) {
        (MRead::Found(r), Ok(ReadResult::Found(b))) => r.data == b.as_ref(),
        (MRead::Found(r), Err(_)) => tolerant && is_damaged(ctx, r),
        (MRead::Deleted(ts), Ok(ReadResult::Deleted(t))) => *ts == Into::<u64>::into(*t),
        (MRead::NotFound, Ok(ReadResult::NotFound)) => true,
        _ => false,
    }
}

thread_local! {
    /// records of operations that failed under an injected fault (set by the caller before the views are built)
    pub static FORBIDDEN: std::cell::RefCell<BTreeSet<(usize, u64)>> = std::cell::RefCell::new(BTreeSet::new());
}

/// Records that may or may not be visible (operations that failed, were cancelled or are still
/// running as detached closures), at most four.
pub fn optional_set(ctx: &RunCtx, phys: &BTreeMap<usize, Vec<PhysRec>>) -> Vec<(usize, u64)> {
    let mut optional: Vec<(usize, u64)> = ctx.optional_records.borrow().iter().copied().collect();
    let uids = ctx.cancelled.borrow();
    for (b, v) in phys.iter() {
        for r in v.iter() {
            if r.complete && r.tag.map(|t| uids.contains(&t.uid)).unwrap_or(false) && !optional.contains(&(*b, r.offset)) {
                optional.push((*b, r.offset));
            }
        }
    }
    optional.truncate(4);
    optional
}

/// Every admissible set of visible records: all complete records of attached blobs, with each
/// subset of the optional records left out.
pub fn admissible_record_sets<'a>(phys: &'a BTreeMap<usize, Vec<PhysRec>>, attached: &BTreeSet<usize>, optional: &[(usize, u64)]) -> Vec<Vec<&'a PhysRec>> {
    let base: Vec<&PhysRec> = phys.iter().filter(|(b, _)| attached.contains(b)).flat_map(|(_, v)| v.iter()).filter(|r| r.complete && r.header_crc_ok).collect();
    let base: Vec<&PhysRec> = FORBIDDEN.with(|f| {
        let f = f.borrow();
        base.into_iter().filter(|r| !f.contains(&(r.blob, r.offset))).collect()
    });
    let mut out = Vec::new();
    for mask in 0..(1u32 << optional.len()) {
        let recs: Vec<&PhysRec> = base
            .iter()
            .copied()
            .filter(|r| match optional.iter().position(|o| *o == (r.blob, r.offset)) {
                Some(i) => mask & (1 << i) != 0,
                None => true,
            })
            .collect();
        out.push(recs);
    }
    // the full set first
    out.reverse();
    out
}

/// Full comparison of every query method with the model, for every key of the key space.
/// `phase` selects the properties a mismatch is attributed to and how tolerant the comparison is.
pub async fn check_all_queries<K>(ctx: &Rc<RunCtx>, storage: &Storage<K>, phase: &str, uid: u32)
where
    for<'a> K: Key<'a> + AsRef<K> + 'static,
{
    let world = ctx.world.clone();
    let tag = Some(Tag { client: QUERY_CLIENT, uid });
    world.set_query_phase(true);
    let attached = ctx.attached();
    let plan = ctx.plan.clone();
    let phys = world.inner.borrow().phys.clone();
    let (p_read, p_all) = props_for(phase);
    let tolerant = matches!(phase, "crash" | "fault" | "cancel" | "bitflip");
    let note = ctx.last_step_note.borrow().clone();

    // Blob order of the storage (closed blobs in list order, then the active blob) as observed.
    let order_ids: Vec<usize> = tagged(&world, tag, storage.records_count_detailed()).await.iter().map(|x| x.0).collect();
    let order_anomaly = order_ids.windows(2).any(|w| w[0] >= w[1]);
    if order_anomaly {
        world.probe("blob_order_differs_from_id_order");
        if !ctx.order_anomaly_reported.get() {
            ctx.order_anomaly_reported.set(true);
            if ctx.force_update_since_open.get() {
                ctx.violate(&["C04"], "blob-order", "blob list order differs from blob id order after force_update_active_blob raced with the creation of an active blob", format!("phase={} observed order (closed..., active) {:?}; rank ties between blobs now resolve differently before and after a restart; {}", phase, order_ids, note));
            } else {
                ctx.violate(&["C03", "C04", "C01", "C02"], "blob-order", "blob list order differs from blob id order although no force_update_active_blob was issued since the storage was opened", format!("phase={} observed order (closed..., active) {:?}; {}", phase, order_ids, note));
            }
        }
        world.set_query_phase(false);
        return;
    }

    // ---- views
    FORBIDDEN.with(|f| *f.borrow_mut() = ctx.forbidden_records.borrow().clone());
    let optional: Vec<(usize, u64)> = if tolerant { optional_set(ctx, &phys) } else { vec![] };
    let sets = admissible_record_sets(&phys, &attached, &optional);
    let base: Vec<&PhysRec> = sets[0].clone();
    let views: Vec<View> = sets.into_iter().map(View::from_recs).collect();
    let full_view = View::from_recs(base.clone());
    let mut state_h = ctx.state_hash.get();
    // keys that have a partially written record (header intact) left by a failed write in an
    // attached blob: with data validation off the next start indexes such a record
    let hl = record_header_len(ctx.key_len) as u64;
    let partial_keys: BTreeSet<Vec<u8>> = if tolerant {
        phys.iter().filter(|(b, _)| attached.contains(b)).flat_map(|(_, v)| v.iter()).filter(|r| !r.complete && r.header_crc_ok && r.bytes_written >= hl).map(|r| r.key.clone()).collect()
    } else {
        BTreeSet::new()
    };

    let mut mismatching: BTreeSet<u8> = BTreeSet::new();
    for ki in 0..plan.n_keys {
        let kb = key_bytes(ki, ctx.key_len);
        let key: K = K::from(kb.clone());
        let nviol_before_key = ctx.violations.borrow().len();
        let fault_seq_before_key = world.inner.borrow().last_fault_seq;
        let is_partial_key = partial_keys.contains(&kb);
        // ---- ask everything once
        let read = tagged(&world, tag, storage.read(&key)).await;
        let contains = tagged(&world, tag, storage.contains(&key)).await.map(|r| r.map(|t| Into::<u64>::into(t)));
        let all_marker = match tagged(&world, tag, storage.read_all_with_deletion_marker(&key)).await {
            Err(e) => Err(err_kind(&e)),
            Ok(entries) => {
                let mut v = Vec::new();
                for (ei, mut e) in entries.into_iter().enumerate() {
                    let d = e.is_deleted();
                    let t: u64 = e.timestamp().into();
                    // the three ways to get at an entry's bytes: load_data alone, load_meta then load, load
                    let data_only = if plan.faults.is_empty() { Some(tagged(&world, tag, e.load_data()).await.map(|b| b.to_vec()).map_err(|e| err_kind(&e))) } else { None };
                    if ei % 2 == 1 {
                        let _ = tagged(&world, tag, e.load_meta()).await;
                    }
                    let loaded = tagged(&world, tag, e.load()).await;
                    match loaded {
                        Ok(rec) => {
                            let mut mm = BTreeMap::new();
                            for m in 0..4u8 {
                                for (k, _) in meta_map(m) {
                                    if let Some(val) = rec.meta().get(&k) {
                                        mm.insert(k, val.clone());
                                    }
                                }
                            }
                            let data = rec.into_data().to_vec();
                            v.push((d, t, Ok(data), Some(mm), data_only));
                        }
                        Err(e) => v.push((d, t, Err(err_kind(&e)), None, data_only)),
                    }
                }
                Ok(v)
            }
        };
        let all = match tagged(&world, tag, storage.read_all(&key)).await {
            Err(e) => Err(err_kind(&e)),
            Ok(es) => Ok(es.iter().map(|e| (e.is_deleted(), e.timestamp().into())).collect::<Vec<(bool, u64)>>()),
        };
        let mut with = Vec::new();
        for m in 0..plan.n_metas {
            let meta = meta_of(m);
            with.push(tagged(&world, tag, storage.read_with(&key, &meta)).await);
        }
        let check_filters = tagged(&world, tag, storage.check_filters(&key)).await;
        let check_filter = tagged(&world, tag, BloomProvider::check_filter(storage, &key)).await;
        let combined_filter = {
            use pearl::filter::FilterTrait;
            tagged(&world, tag, BloomProvider::get_filter(storage)).await.map(|f| f.contains_fast(&key))
        };
        let ans = KeyAnswers { read, contains, all_marker, all, with, check_filters, check_filter, combined_filter };

        // ---- compare: an answer is fine if it matches any admissible view
        let exp0 = views[0].read(&kb);
        state_h = crate::rng::mix(state_h ^ crate::rng::mix_all(&[ki as u64, match &exp0 { MRead::Found(r) => r.offset ^ ((r.blob as u64) << 40), MRead::Deleted(t) => *t ^ 0xdead, MRead::NotFound => 0 }]));

        if !views.iter().any(|v| read_matches(ctx, &v.read(&kb), &ans.read, tolerant)) {
            let exp = full_view.read(&kb);
            let altered = matches!((&exp, &ans.read), (MRead::Found(r), Ok(ReadResult::Found(_))) if is_damaged(ctx, r));
            let cause = if altered {
                "read returned bytes of a record whose stored bytes were altered".to_string()
            } else {
                match &ans.read {
                    Err(e) => format!("read returned Err({}) expected {}", err_kind(e), exp.class()),
                    Ok(g) => format!("read returned {} expected {}", class_of_read(g), exp.class()),
                }
            };
            let props: Vec<&str> = if altered { vec!["C05"] } else { p_read.clone() };
            ctx.violate(&props, "read-mismatch", cause, format!("phase={} key={} expected {} got {}; {}", phase, ki, describe_mread(&exp), describe_read(&ans.read), note));
        }
        // contains
        let contains_ok = |v: &View| -> bool {
            match (v.read(&kb), &ans.contains) {
                (MRead::Found(r), Ok(ReadResult::Found(t))) => r.ts == *t,
                (MRead::Deleted(ts), Ok(ReadResult::Deleted(t))) => ts == Into::<u64>::into(*t),
                (MRead::NotFound, Ok(ReadResult::NotFound)) => true,
                _ => false,
            }
        };
        if !views.iter().any(|v| contains_ok(v)) {
            let exp = full_view.read(&kb);
            let g = match &ans.contains {
                Ok(ReadResult::Found(t)) => format!("Found({})", t),
                Ok(ReadResult::Deleted(t)) => format!("Deleted({})", t),
                Ok(ReadResult::NotFound) => "NotFound".into(),
                Err(e) => format!("Err({})", err_kind(e)),
            };
            let cause = format!("contains returned {} expected {}", g.split('(').next().unwrap_or(""), exp.class());
            ctx.violate(&p_read, "contains-mismatch", cause, format!("phase={} key={} expected {} got {}; {}", phase, ki, describe_mread(&exp), g, note));
        }
        // read_all_with_deletion_marker
        let marker_ok = |v: &View| -> Result<(), String> {
            let exp_list = v.read_all_with_marker(&kb);
            match &ans.all_marker {
                Err(e) => {
                    if tolerant && exp_list.iter().any(|r| is_damaged(ctx, r)) {
                        Ok(())
                    } else {
                        Err(format!("read_all_with_deletion_marker returned Err({})", e))
                    }
                }
                Ok(got) => {
                    let got_desc: Vec<(bool, u64)> = got.iter().map(|x| (x.0, x.1)).collect();
                    let exp_desc: Vec<(bool, u64)> = exp_list.iter().map(|r| (r.deleted, r.ts)).collect();
                    if got_desc != exp_desc {
                        let how = if got_desc.len() < exp_desc.len() { "shorter than" } else if got_desc.len() > exp_desc.len() { "longer than" } else { "ordered differently from" };
                        return Err(format!("read_all_with_deletion_marker list is {} the ranked list", how));
                    }
                    for (g, r) in got.iter().zip(exp_list.iter()) {
                        // Entry::load_data (data bytes only): whatever Entry::load says about header or
                        // metadata, bytes it hands out are the bytes that were written
                        if let Some(Ok(bytes)) = &g.4 {
                            let data_altered = ctx.damaged.borrow().iter().any(|(b, o, c)| *b == r.blob && *o == r.offset && *c == ByteClass::Data);
                            if data_altered {
                                return Err("Entry::load_data returned the data of a record whose stored data bytes were altered".to_string());
                            }
                            if bytes.as_slice() != r.data.as_slice() {
                                return Err("Entry::load_data returned other bytes than the ranked record".to_string());
                            }
                        }
                        match &g.2 {
                            Ok(data) => {
                                if data.as_slice() != r.data.as_slice() {
                                    return Err("entry of read_all_with_deletion_marker loads other bytes than the ranked record".to_string());
                                }
                                if !is_damaged(ctx, r) {
                                    if let (Some(gm), Some(em)) = (&g.3, r.meta_map()) {
                                        if *gm != em {
                                            return Err("entry of read_all_with_deletion_marker loads other metadata than the ranked record".to_string());
                                        }
                                    }
                                }
                            }
                            Err(e) => {
                                if !(tolerant && is_damaged(ctx, r)) {
                                    return Err(format!("entry load returned Err({})", e));
                                }
                            }
                        }
                    }
                    Ok(())
                }
            }
        };
        let results: Vec<Result<(), String>> = views.iter().map(|v| marker_ok(v)).collect();
        if !results.iter().any(|r| r.is_ok()) {
            let cause = results.last().and_then(|r| r.clone().err()).unwrap_or_default();
            let exp_desc: Vec<(bool, u64)> = full_view.read_all_with_marker(&kb).iter().map(|r| (r.deleted, r.ts)).collect();
            let got_desc = ans.all_marker.as_ref().map(|g| g.iter().map(|x| (x.0, x.1, x.2.as_ref().map(|d| short(d)).unwrap_or_else(|e| e.clone()))).collect::<Vec<_>>());
            let altered = (cause.contains("other bytes") || cause.contains("were altered")) && full_view.read_all_with_marker(&kb).iter().any(|r| is_damaged(ctx, r));
            let props: Vec<&str> = if altered { vec!["C05"] } else { p_all.clone() };
            ctx.violate(&props, "readall-marker-mismatch", cause, format!("phase={} key={} expected {:?} got {:?}; {}", phase, ki, exp_desc, got_desc, note));
        }
        // read_all
        let all_ok = |v: &View| -> Result<(), String> {
            let exp_list = v.read_all(&kb);
            match &ans.all {
                Err(e) => Err(format!("read_all returned Err({})", e)),
                Ok(got) => {
                    let exp_desc: Vec<(bool, u64)> = exp_list.iter().map(|r| (r.deleted, r.ts)).collect();
                    if *got != exp_desc {
                        let how = if got.len() < exp_desc.len() { "shorter than" } else if got.len() > exp_desc.len() { "longer than" } else { "ordered differently from" };
                        Err(format!("read_all list is {} the ranked list", how))
                    } else {
                        Ok(())
                    }
                }
            }
        };
        let results: Vec<Result<(), String>> = views.iter().map(|v| all_ok(v)).collect();
        if !results.iter().any(|r| r.is_ok()) {
            let cause = results.last().and_then(|r| r.clone().err()).unwrap_or_default();
            let exp_desc: Vec<(bool, u64)> = full_view.read_all(&kb).iter().map(|r| (r.deleted, r.ts)).collect();
            ctx.violate(&p_all, "readall-mismatch", cause, format!("phase={} key={} expected {:?} got {:?}; {}", phase, ki, exp_desc, ans.all, note));
        }
        // read_with
        for m in 0..plan.n_metas {
            let mm = meta_map(m);
            let got = &ans.with[m as usize];
            if !views.iter().any(|v| read_matches(ctx, &v.read_with(&kb, &mm), got, tolerant)) {
                // a damaged record of this key (in any blob, even below a marker of a newer blob) can make
                // the per-blob metadata scan fail or skip it; altered bytes must still never be returned
                if tolerant && full_view.ranked(&kb).iter().any(|r| is_damaged(ctx, r)) {
                    let acceptable = match got {
                        Err(_) | Ok(ReadResult::NotFound) | Ok(ReadResult::Deleted(_)) => true,
                        Ok(ReadResult::Found(b)) => full_view.ranked(&kb).iter().any(|r| r.data.as_slice() == b.as_ref()),
                    };
                    if acceptable {
                        continue;
                    }
                }
                let exp = full_view.read_with(&kb, &mm);
                let altered = matches!((&exp, got), (MRead::Found(r), Ok(ReadResult::Found(_))) if is_damaged(ctx, r));
                let cause = if altered {
                    "read_with returned bytes of a record whose stored bytes were altered".to_string()
                } else {
                    match got {
                        Err(e) => format!("read_with returned Err({}) expected {}", err_kind(e), exp.class()),
                        Ok(g) => format!("read_with returned {} expected {}", class_of_read(g), exp.class()),
                    }
                };
                let props: Vec<&str> = if altered { vec!["C05"] } else { p_all.clone() };
                ctx.violate(&props, "readwith-mismatch", cause, format!("phase={} key={} meta={} expected {} got {}; {}", phase, ki, m, describe_mread(&exp), describe_read(got), note));
            }
        }
        // ---- filters: no false negative (C10); a record that must be visible in every view
        let stored = views.iter().all(|v| v.recs.iter().any(|r| r.key == kb));
        if stored && ans.check_filters == Some(false) {
            ctx.violate(&["C10"], "filter-false-negative", "check_filters answered Some(false) for a stored key", format!("phase={} key={}; {}", phase, ki, note));
        }
        if stored && ans.check_filter == pearl::FilterResult::NotContains {
            ctx.violate(&["C10"], "filter-false-negative", "check_filter answered NotContains for a stored key", format!("phase={} key={}; {}", phase, ki, note));
        }
        if stored && ans.combined_filter == Some(pearl::FilterResult::NotContains) {
            ctx.violate(&["C10"], "filter-false-negative", "get_filter().contains_fast answered NotContains for a stored key", format!("phase={} key={}; {}", phase, ki, note));
        }
        // one defect, one report: mismatches of a key that has a partially written record collapse
        // into a single finding
        // an injected fault hit one of this key's queries: the query may report the error, it must not
        // give another answer (absent for a stored key, other bytes)
        if world.inner.borrow().last_fault_seq != fault_seq_before_key && ctx.violations.borrow().len() > nviol_before_key {
            world.probe("query_hit_by_injected_fault");
            let mut vs = ctx.violations.borrow_mut();
            let tail: Vec<Violation> = vs.drain(nviol_before_key..).collect();
            for mut v in tail {
                if v.cause.contains("returned Err(") {
                    continue;
                }
                v.cause = format!("{} (while an injected read error hit the query)", v.cause);
                vs.push(v);
            }
        }
        if ctx.violations.borrow().len() > nviol_before_key {
            mismatching.insert(ki);
        }
        if is_partial_key && ctx.violations.borrow().len() > nviol_before_key {
            let first_detail = ctx.violations.borrow()[nviol_before_key].detail.clone();
            ctx.violations.borrow_mut().truncate(nviol_before_key);
            if !ctx.partial_reported.get() {
                ctx.partial_reported.set(true);
                ctx.violate(&["C11"], "partial-record-indexed", "a partially written record left by a failed write is indexed at the next start (data validation off) and shadows or pollutes the answers for its key", first_detail);
            }
        }
    }
    ctx.state_hash.set(state_h);
    world.set_query_phase(false);
    *ctx.mismatch_keys_last.borrow_mut() = (mismatching, record_counts(ctx));
}

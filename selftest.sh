#!/bin/bash
# Determinism self-test: the event signature of every run must be identical across processes
# and worker counts. Any divergence is a harness error (exit 2), never a property verdict.
set -u
ROOT="$(cd "$(dirname "${BASH_SOURCE[0]}")" && pwd)"
BIN="$ROOT/sim/target/release/pearl-sim"
N=${2:-150}
[ "${1:-quick}" = "thorough" ] && N=2000
TMP=$(mktemp -d /dev/shm/pearl-selftest.XXXXXX)
fail=0
for P in $("$BIN" list); do
  "$BIN" determinism "$P" "$N" > "$TMP/a.$P" 2>/dev/null &
  "$BIN" determinism "$P" "$N" > "$TMP/b.$P" 2>/dev/null &
done
wait
for P in $("$BIN" list); do
  if ! cmp -s "$TMP/a.$P" "$TMP/b.$P"; then
    echo "harness error: nondeterminism in profile set of $P" >&2
    diff "$TMP/a.$P" "$TMP/b.$P" | head -5 >&2
    fail=1
  fi
  if [ ! -s "$TMP/a.$P" ]; then
    echo "harness error: no output for $P" >&2
    fail=1
  fi
done
pairs=$(cat "$TMP"/a.* | wc -l)
rm -rf "$TMP"
if [ $fail -ne 0 ]; then exit 2; fi
echo "determinism self-test ok: $pairs run pairs compared"

#!/usr/bin/env python3
"""Regenerates MANIFEST.json from the table below (kept in one place so it stays valid)."""
import json, subprocess
claimed = {
 "C01": ("exploration", "7/C01", "seeded search over sequential histories with per-step comparison of read/contains against an executable reference model; deterministic simulation of pearl's tasks, blocking pool, clocks and disk"),
 "C02": ("exploration", "7/C02", "same simulator; per-step comparison of read_all*, read_with, delete count/marker placement and duplicate suppression against the reference model"),
 "C03": ("fault_enumeration", "7/C03", "clean close + reopen inside seeded histories with index files removed / truncated (random lengths and a per-history sweep over truncation lengths) / cut to the header / written-flag cleared / replaced by an older copy; model equality, counters and id monotonicity after every reopen"),
 "C04": ("exploration", "7/C04", "same simulator; lifecycle/maintenance calls interleaved with data operations while simulated index dumps complete at arbitrary moments; model equality before and after quiescence"),
 "C05": ("fault_enumeration", "7/C05", "value lengths across every write-path threshold in both I/O modes, then one seeded burst of <= 32 bits flipped in a stored record (data / meta / record header / blob header) under the open storage or between sessions; altered bytes must never be returned, untouched blobs never quarantined"),
 "C06": ("fault_enumeration", "7/C06", "three-session simulated runs cut by a process kill (partial write lengths) or a power loss (un-synced suffix cut / torn per file, rebuilt from the sync points of the I/O tap); random crash points plus a sweep over every mutating I/O event of sampled histories; recovery, recovery tool on rejected blobs, writes after recovery and further restarts checked against the model"),
 "C07": ("exploration", "7/C07", "I/O tap monitors on every simulated run: append-only offsets, no truncate/re-create of blobs, shadow-copy equality at session boundaries, no id reuse, no writes attributed to queries"),
 "C08": ("exploration", "7/C08", "N simulated client tasks plus a maintenance client and the real background worker under a seeded scheduler (latencies, stalls, yield points before every lock acquisition, channel capacity knob incl. a burst profile and 100..1200-client runs); linearizability condition per completed read over the recorded history, exactly-once records, contiguous layout, deadlock watchdog (idle and busy-wait), model equality at quiescence and after restart"),
 "C10": ("exploration", "7/C10", "same simulator with swarm bloom/group configurations; no-false-negative oracle after every step and on-file == in-memory probe across offload at quiescent points"),
 "C11": ("fault_enumeration", "7/C11", "injected ENOSPC/EIO/short writes at the n-th create/open/write/sync on blob or index files (random, and a sweep over every mutating I/O event of sampled histories); acknowledged records stay readable in session, after 60 simulated seconds and after restart; errors only while a fault fires; rotation probe afterwards"),
 "C12": ("exploration", "7/C12", "ordered I/O tap (write/sync events with lengths) checked online for header-sync-before-record, blob-sync-before-index-complete, clean-after-fsync/close and the dirty bound at quiescent points"),
 "C13": ("exploration", "7/C13", "seeded sequences of public calls in every active-blob state (all background requests whether or not they apply, force updates, wall-clock jumps), then bounded-liveness probes in simulated time: rotation within the probe, up-to-date index files after the maximal deferral, close() within 60 simulated seconds, no task panic"),
 "C14": ("fault_enumeration", "7/C14", "operation futures polled k times and dropped (random, and a sweep over operation x k), detached simulated jobs racing with the next operations; all-or-nothing for the cancelled operation, every other acknowledged record readable, later operations succeed, no blob rejected at the restart"),
 "C16": ("fault_enumeration", "7/C16", "the real offline tools run on blobs/indexes produced by simulated histories, undamaged and with stored-byte faults at rest (truncation lengths, <= 32-bit bursts per position class); validators accept/reject, recovery output validates and a storage opened on it serves every contained record with its original bytes, migration preserves records, read_index equals the trace-derived headers"),
 "C15": ("exploration", "7/C15", "same simulator; every counter compared at quiescent points with the physical record list derived from the tapped writes and the directory listing"),
}
notes = {
 "C01": "trusted: the harness's own record parser and the 160-line reference model (unit-tested); blob attribution is observed from the I/O tap, never predicted",
 "C02": "as C01; a share of restart histories with more than ten blobs (two-digit ids) for the order of equal-timestamp versions across blobs after a reopen; one run in about fifty carries a 70 000-byte metadata value",
 "C04": "as C01; which blob is active is observed through has_active_blob/records_count_detailed at quiescent points; profile seq-maint+opreadfault fails exactly one read that is not one of the checker's own queries (index load of a restore or of a delete into a dumped blob, dump, background work) with EIO: the operation hit may fail, no answer may change",
 "C03": "as C01; a share of the runs are concurrent histories reopened with indexes removed, and crash-kill histories for the id clause (rule C07.id-reuse counts for C03 and C07); index damage is applied by the harness between close and init, the truncation sweep is capped at 40 lengths per history in the quick tier and covers every byte length in the thorough tier's restart-sweep-full runs",
 "C05": "as C01; CRC32C detects every burst of <= 32 bits, so 'altered bytes never served' is an exact oracle; flips in header/meta classes only assert that no altered data bytes are returned",
 "C06": "profiles beyond the single crash: crash-conc (concurrent clients cut by a kill, closures interleaved at I/O-call granularity), crash-double (kill, then power loss in the recovery session), crash-power-index (power lost while a multi-block index file is dumped; one 4 KiB block of the un-synced writes is lost while later ones survive); a blob accepted by recovery must be accepted by every later start after a clean close; an index file that is complete in the surviving image implies that every blob byte it describes survived; crash model stated in the evidence assumptions (kill = partial write at one event, power loss = synced prefix + cut/torn un-synced tail per file, durable directory entries); real SIGKILL of a child process is not used because its timing is not replayable",
 "C11": "faults are decided by the simulator at the tapped std::fs calls; directory operations during init are not faulted",
 "C14": "the dropped future's blocking closures are simulated jobs that still run (same contract as spawn_blocking); after half of the drops the next operation starts at once (no queries, no think time) and in a third of the runs closures are preemptible at every file operation, so the detached closure and the next operation's closure overlap",
 "C07": "trusted: the tap sees every write pearl issues through crate::io::File; directory operations (rename into corrupted/, index removal) are observed by snapshots at session boundaries",
 "C08": "interleaving granularity = await points + yield points (incl. before every storage-level and blob-level lock acquisition); in a quarter of the conc runs blocking closures run on their own threads and hand control back at every file operation (hook H8), otherwise two closures never overlap inside their bodies; the async-lock mutex reads the real clock for its fairness mode (only affects which waiter is woken first); a busy-wait detector replaces idle-based time advance when tasks spin",
 "C13": "profile live+closerace calls close() at once behind writes, a close of the active blob and background requests that can or cannot apply (requests queued, index dumps in flight, possibly no active blob), profile live+slowdump runs on a steadily slow disk (0..80 simulated ms per file operation, no stall) so that one dump pass over several closed blobs spans several 200 ms dump quanta; a share of concurrent runs (conc, conc-burst): a wedge between clients and the worker counts as lost liveness; a session watchdog turns a storage call that never returns into a deadlock verdict instead of a hung run; bounds are in simulated time and apply only without disk stalls; the wall clock is simulated (jumps of +-1 s and +-1 h)",
 "C16": "a panic inside a tool is caught and reported (rule tool-panic); a refused blob must not leave an invalid output file; weakest fit for the technique: no scheduling component; the tools run outside the simulator on a plain thread, the storage-on-output oracle in a small runtime of its own",
 "C10": "as C01; profile seq-filter+readfault fails reads of index files with EIO (a query may fail, never answer absent for a stored key); a third of the seq-filter runs reopen the storage under a second bloom configuration, which in a third of those is no bloom filter at all (placeholder filters of bloom-less openings meet bloom-enabled ones); filters are only exercised through the storage (the bare Bloom/RangeFilter API is a pure function)",
 "C12": "explicit fsyncdata is also judged with concurrent clients (profile conc+fsync: clients sync while writes keep crossing a tiny limit, so explicit syncs meet background syncs in flight): every record acknowledged before the call must lie below the synced length when it returns Ok, provided the same blob is observed active before and after; clean-after-close is checked at the return of try_close_active_blob in sequential and concurrent sessions (the blob the call synced, records of writes only); trusted: the tap's notion of synced length (content length at the last successful sync_all of that file)",
 "C15": "as C01; accounting is compared at quiescent points only, including the quiescent end of concurrent sessions (a blob under creation by the worker exists on disk before it is attached)",
}
not_applicable = [
 {"property_id": "C09", "reason": "pure function of a header multiset (build index file, compare lookups with the in-memory index): no schedule, clock, fault or interleaving to simulate; deciding it is input enumeration, a different technique. Storage-visible consequences are exercised by C01/C03/C04 whenever a blob is dumped (DESIGN.md section 8)"},
 {"property_id": "C17", "reason": "differential check against files produced by the pinned release: needs a committed golden corpus and has no schedule, fault or time in it; golden-file replay is a different technique (DESIGN.md section 8)"},
]
pending = []
hooks = subprocess.run(["git","-C","/repo","log","--format=%H %s"],capture_output=True,text=True).stdout.strip().split("\n")
hook_commits=[l.split()[0] for l in hooks if "verif hook" in l]
checks=[]
for pid,(level,ref,tech) in sorted(claimed.items()):
    checks.append({
        "property_id": pid,
        "quick_cmd": f"./check {pid} --tier quick",
        "thorough_cmd": f"./check {pid} --tier thorough",
        "evidence_file": f"/verif/evidence/{pid}.json",
        "replay_cmd_template": "./check replay {path}",
        "engine": "pearl-sim",
        "level_claimed": {"category": level, "text": tech, "design_ref": ref},
        "level_note": notes[pid],
        "technique": "deterministic simulation with fault injection (seeded search over schedules and fault sequences, reference-model oracle)",
    })
for pid in pending:
    if pid not in claimed:
        not_applicable.append({"property_id": pid, "reason": "not claimed yet: check under construction in this round (see DESIGN.md section 7); will move to checks when its machinery is registered"})
m={
 "version":1,
 "setup_cmd":"./setup.sh",
 "hooks":{
   "guard":"pearl_verif",
   "enable":"RUSTFLAGS=\"--cfg pearl_verif\" (set in /verif/sim/.cargo/config.toml); the simulator depends on pearl by path (/repo) and rebuilds from its working tree",
   "baseline_off_cmd":"cd /repo && cargo test --workspace --no-fail-fast --offline",
   "source_commits":hook_commits,
   "add_only":True,
 },
 "engines":[{"name":"pearl-sim","path":"/verif/sim","serves_properties":sorted(claimed.keys()),"kind_free_text":"deterministic simulator: tokio current-thread runtime with paused clock, simulated blocking pool/wall clock/disk through cfg(pearl_verif) hooks, seeded plans, fault plan, reference model, minimiser, replay"}],
 "checks":checks,
 "not_applicable": sorted(not_applicable,key=lambda x:x["property_id"]),
 "notes":"exit codes: 0 held, 1 violation (VIOLATION line + replay file), 2 harness error. VERIF_SEED (default 1) seeds the batch; VERIF_RUNS / VERIF_BUDGET_S / VERIF_WORKERS override the tier's bounds. Known findings: /verif/known_findings.json.",
}
json.dump(m,open("/verif/MANIFEST.json","w"),indent=1)
print("claimed",sorted(claimed.keys()))

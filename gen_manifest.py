#!/usr/bin/env python3
"""Regenerates MANIFEST.json from the table below (kept in one place so it stays valid)."""
import json, subprocess
claimed = {
 "C01": ("exploration", "7/C01", "seeded search over sequential histories with per-step comparison of read/contains against an executable reference model; deterministic simulation of pearl's tasks, blocking pool, clocks and disk"),
 "C02": ("exploration", "7/C02", "same simulator; per-step comparison of read_all*, read_with, delete count/marker placement and duplicate suppression against the reference model"),
 "C04": ("exploration", "7/C04", "same simulator; lifecycle/maintenance calls interleaved with data operations while simulated index dumps complete at arbitrary moments; model equality before and after quiescence"),
 "C07": ("exploration", "7/C07", "I/O tap monitors on every simulated run: append-only offsets, no truncate/re-create of blobs, shadow-copy equality at session boundaries, no id reuse, no writes attributed to queries"),
 "C10": ("exploration", "7/C10", "same simulator with swarm bloom/group configurations; no-false-negative oracle after every step and on-file == in-memory probe across offload at quiescent points"),
 "C12": ("exploration", "7/C12", "ordered I/O tap (write/sync events with lengths) checked online for header-sync-before-record, blob-sync-before-index-complete, clean-after-fsync/close and the dirty bound at quiescent points"),
 "C15": ("exploration", "7/C15", "same simulator; every counter compared at quiescent points with the physical record list derived from the tapped writes and the directory listing"),
}
notes = {
 "C01": "trusted: the harness's own record parser and the 160-line reference model (unit-tested); blob attribution is observed from the I/O tap, never predicted",
 "C02": "as C01",
 "C04": "as C01; which blob is active is observed through has_active_blob/records_count_detailed at quiescent points",
 "C07": "trusted: the tap sees every write pearl issues through crate::io::File; directory operations (rename into corrupted/, index removal) are observed by snapshots at session boundaries",
 "C10": "as C01; filters are only exercised through the storage (the bare Bloom/RangeFilter API is a pure function)",
 "C12": "trusted: the tap's notion of synced length (content length at the last successful sync_all of that file)",
 "C15": "as C01; accounting is compared at quiescent points only (a blob under creation by the worker exists on disk before it is attached)",
}
not_applicable = [
 {"property_id": "C09", "reason": "pure function of a header multiset (build index file, compare lookups with the in-memory index): no schedule, clock, fault or interleaving to simulate; deciding it is input enumeration, a different technique. Storage-visible consequences are exercised by C01/C03/C04 whenever a blob is dumped (DESIGN.md section 8)"},
 {"property_id": "C17", "reason": "differential check against files produced by the pinned release: needs a committed golden corpus and has no schedule, fault or time in it; golden-file replay is a different technique (DESIGN.md section 8)"},
]
pending = ["C03","C05","C06","C08","C11","C13","C14","C16"]
hooks = subprocess.run(["git","-C","/repo","log","--format=%H %s"],capture_output=True,text=True).stdout.strip().split("\n")
hook_commits=[l.split()[0] for l in hooks if "verif hook" in l]
checks=[]
for pid,(level,ref,tech) in sorted(claimed.items()):
    checks.append({
        "property_id": pid,
        "quick_cmd": f"./check {pid} --tier quick",
        "thorough_cmd": f"./check {pid} --tier thorough",
        "evidence_file": f"/verif/evidence/{pid}.json",
        "replay_cmd_template": "./check replay {path}",
        "engine": "pearl-sim",
        "level_claimed": {"category": level, "text": tech, "design_ref": ref},
        "level_note": notes[pid],
        "technique": "deterministic simulation with fault injection (seeded search over schedules and fault sequences, reference-model oracle)",
    })
for pid in pending:
    if pid not in claimed:
        not_applicable.append({"property_id": pid, "reason": "not claimed yet: check under construction in this round (see DESIGN.md section 7); will move to checks when its machinery is registered"})
m={
 "version":1,
 "setup_cmd":"./setup.sh",
 "hooks":{
   "guard":"pearl_verif",
   "enable":"RUSTFLAGS=\"--cfg pearl_verif\" (set in /verif/sim/.cargo/config.toml); the simulator depends on pearl by path (/repo) and rebuilds from its working tree",
   "baseline_off_cmd":"cd /repo && cargo test --workspace --no-fail-fast --offline",
   "source_commits":hook_commits,
   "add_only":True,
 },
 "engines":[{"name":"pearl-sim","path":"/verif/sim","serves_properties":sorted(claimed.keys()),"kind_free_text":"deterministic simulator: tokio current-thread runtime with paused clock, simulated blocking pool/wall clock/disk through cfg(pearl_verif) hooks, seeded plans, fault plan, reference model, minimiser, replay"}],
 "checks":checks,
 "not_applicable": sorted(not_applicable,key=lambda x:x["property_id"]),
 "notes":"exit codes: 0 held, 1 violation (VIOLATION line + replay file), 2 harness error. VERIF_SEED (default 1) seeds the batch; VERIF_RUNS / VERIF_BUDGET_S / VERIF_WORKERS override the tier's bounds. Known findings: /verif/known_findings.json.",
}
json.dump(m,open("/verif/MANIFEST.json","w"),indent=1)
print("claimed",sorted(claimed.keys()))

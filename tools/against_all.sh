#!/bin/bash
# usage: against_all.sh "<ID> <N> <checks...>" ... ; results appended to /tmp/mutants/against.log
for spec in "$@"; do
  set -- $spec
  ID=$1; N=$2; shift 2
  echo "##### $ID-$N vs $*" >> /tmp/mutants/against.log
  /verif/tools/run_against.sh /tmp/mutants/$ID/patch$N.diff "$@" >> /tmp/mutants/against.log 2>&1
done
echo "ALL DONE" >> /tmp/mutants/against.log

#!/bin/bash
# usage: verify_mutant.sh <ID> <N>   - confirms a candidate change in a scratch worktree:
#   demo passes without the change, change compiles, baseline suite passes with it, demo fails with it.
ID=$1; N=$2
SRC=/tmp/mutants/$ID
WT=/tmp/vm-$ID-$N
OUT=$SRC/verify$N.log
export CARGO_NET_OFFLINE=true
export TMPDIR=/tmp/vm-tmp-$ID-$N
mkdir -p $TMPDIR
rm -rf $WT; git -C /repo worktree add -q --detach $WT HEAD || exit 2
cp $SRC/demo$N.rs $WT/tests/demo_${ID}_$N.rs
cd $WT
{
DEMOFLAGS=""
[ -n "$DEMO_CFG" ] && DEMOFLAGS="--cfg pearl_verif"
echo "== demo without change"
RUSTFLAGS="$DEMOFLAGS" CARGO_TARGET_DIR=$WT/target-demo cargo test --offline --test demo_${ID}_$N 2>&1 | grep -E "^test result|^test .*FAILED|error(\[|:)" | head -8
R0=${PIPESTATUS[0]}
echo "exit=$R0"
echo "== apply"
git apply $SRC/patch$N.diff && echo applied || echo "APPLY FAILED"
echo "== build+baseline with change"
cargo test --workspace --no-fail-fast --offline 2>&1 | grep -E "^test result|FAILED|^error" | grep -v "demo_" | head -12
echo "== demo with change"
RUSTFLAGS="$DEMOFLAGS" CARGO_TARGET_DIR=$WT/target-demo cargo test --offline --test demo_${ID}_$N 2>&1 | grep -E "^test result|^test .*FAILED|error(\[|:)" | head -8
} > $OUT 2>&1
cd /
git -C /repo worktree remove --force $WT
rm -rf $TMPDIR
echo "verified $ID $N -> $OUT"

#!/bin/bash
# usage: run_against.sh <patch> <check ids...>  - applies a candidate change to /repo, runs the quick checks, undoes it
P=$1; shift
cd /repo || exit 2
if ! git diff --quiet; then echo "/repo is dirty"; exit 2; fi
git apply "$P" || { echo "apply failed"; exit 2; }
cd /verif
for c in "$@"; do
  echo "=== $c"
  ./check $c --tier quick 2>&1 | grep -E "^VIOLATION|^  rule|^KNOWN|^C[0-9]+:|harness error" | cut -c1-260
done
git -C /repo checkout -- .
find /verif/replays -name "*.json" -delete

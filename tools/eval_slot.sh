#!/bin/bash
# usage: eval_slot.sh <slot> "<ID> <N> <checks...>" ...
# Like eval_mutants.sh, with scratch worktrees per slot (/tmp/evalrepo-<slot>, /tmp/evalverif-<slot>) so that
# several evaluations can run side by side; the worktrees are kept between calls (incremental builds) and
# removed with: eval_slot.sh <slot> --clean. Results go to /tmp/mutants/eval-<ID>-<N>.log.
set -u
SLOT=$1; shift
ER=/tmp/evalrepo-$SLOT; EV=/tmp/evalverif-$SLOT
if [ "${1:-}" = "--clean" ]; then
  git -C /repo worktree remove --force $ER 2>/dev/null; git -C /verif worktree remove --force $EV 2>/dev/null; exit 0
fi
[ -d $ER ] || git -C /repo worktree add -q --detach $ER HEAD || exit 2
if [ ! -d $EV ]; then
  git -C /verif worktree add -q --detach $EV HEAD || exit 2
else
  git -C $EV checkout -q -- . ; git -C $EV checkout -q --detach $(git -C /verif rev-parse HEAD)
fi
sed -i "s#pearl = { path = \"/repo\" }#pearl = { path = \"$ER\" }#" $EV/sim/Cargo.toml
mkdir -p $EV/replays $EV/evidence
for spec in "$@"; do
  set -- $spec
  ID=$1; N=$2; shift 2
  LOG=/tmp/mutants/eval-$ID-$N.log
  echo "##### $ID-$N vs $*" > $LOG
  git -C $ER checkout -q -- . ; git -C $ER clean -fdq
  if ! git -C $ER apply /tmp/mutants/$ID/patch$N.diff 2>>$LOG; then echo "APPLY FAILED $ID-$N" >> $LOG; continue; fi
  for c in "$@"; do
    echo "=== $c" >> $LOG
    (cd $EV && VERIF_BUDGET_S=${EVAL_BUDGET_S:-45} timeout 900 ./check $c --tier quick 2>&1 | grep -E "^VIOLATION|^  rule|^KNOWN|^C[0-9]+:|harness error" | cut -c1-260 | head -14) >> $LOG
    find $EV/replays -name '*.json' -delete
  done
  echo "DONE" >> $LOG
done
git -C $ER checkout -q -- .

#!/usr/bin/env python3
"""register_wave4.py <ID> <N> <needs text>: writes /verif/seeded/<ID>-<N>/ for a confirmed candidate under
/tmp/mutants/<ID>/ from its verification log (verifyN.log) and evaluation log (/tmp/mutants/eval-<ID>-<N>.log,
written by tools/eval_slot.sh). Refuses when the verification log does not show the four confirmations."""
import re, os, json, shutil, sys
mid_id, n, needs = sys.argv[1], sys.argv[2], " ".join(sys.argv[3:])
M = "/tmp/mutants"; src = f"{M}/{mid_id}"; mid = f"{mid_id}-{n}"; dst = f"/verif/seeded/{mid}"
v = open(f"{src}/verify{n}.log").read()
parts = re.split(r'^== ', v, flags=re.M)
sec = {p.split('\n')[0].strip(): p for p in parts[1:]}
ok_without = re.search(r'test result: ok', sec.get('demo without change', '')) and 'FAILED' not in sec.get('demo without change', '')
applied = 'applied' in sec.get('apply', '') and 'APPLY FAILED' not in sec.get('apply', '')
base = sec.get('build+baseline with change', '')
base_ok = all(re.search(r'test result: ok\. %d passed; 0 failed' % k, base) for k in (36, 40, 8))  # the demo file sits in tests/ during this run and fails there too
fails_with = 'FAILED' in sec.get('demo with change', '') or re.search(r'test result: FAILED', sec.get('demo with change', ''))
if not (ok_without and applied and base_ok and fails_with):
    print(f"NOT CONFIRMED {mid}: without_ok={bool(ok_without)} applied={applied} baseline_ok={base_ok} fails_with={bool(fails_with)}"); sys.exit(1)
res = {}
ev = f"{M}/eval-{mid_id}-{n}.log"
if os.path.exists(ev):
    for c in re.split(r'^=== ', open(ev).read(), flags=re.M)[1:]:
        name = c.split('\n')[0].strip()
        rules = sorted(set(re.findall(r'rule=(\S+)', c)))
        res[name] = rules if re.search(r'^VIOLATION', c, flags=re.M) else None
old = json.load(open(f"{dst}/meta.json")) if os.path.exists(f"{dst}/meta.json") else {}
os.makedirs(dst, exist_ok=True)
shutil.copy(f"{src}/patch{n}.diff", f"{dst}/patch.diff"); shutil.copy(f"{src}/demo{n}.rs", f"{dst}/demo.rs")
for a, b in ((f"notes{n}.md", "notes.md"), (f"verify{n}.log", "verify.log")):
    if os.path.exists(f"{src}/{a}"): shutil.copy(f"{src}/{a}", f"{dst}/{b}")
caught = {c: r for c, r in res.items() if r}
for c in old.get("caught_by_quick_checks", []): caught.setdefault(c, old.get("rules_fired", {}).get(c, []))
missed = sorted(set([c for c, r in res.items() if not r and c not in caught] + [c for c in old.get("run_but_not_caught_by", []) if c not in caught]))
meta = {"breaks_property": re.match(r'C\d\d', mid_id).group(0), "needs_to_manifest": needs or old.get("needs_to_manifest", ""),
  "confirmed": "tools/verify_mutant.sh in a scratch worktree of /repo HEAD: demo passes without the change; change applies and compiles; baseline suite (cargo test --workspace) passes with the change; demo fails with the change (see verify.log)",
  "checks_run": "tools/eval_slot.sh (scratch worktrees of /repo HEAD + patch and of /verif HEAD; ./check <id> --tier quick with VERIF_BUDGET_S=45)",
  "caught_by_quick_checks": sorted(caught), "rules_fired": caught, "run_but_not_caught_by": missed}
json.dump(meta, open(f"{dst}/meta.json", "w"), indent=1)
print("kept", mid, "caught:", sorted(caught), "missed:", missed)

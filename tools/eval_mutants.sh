#!/bin/bash
# usage: eval_mutants.sh "<ID> <N> <checks...>" ...
# Evaluates candidate changes without touching /repo or the live /verif: a scratch worktree of /repo
# HEAD gets the change, a scratch worktree of /verif HEAD (committed state) runs the quick checks
# against it. Results are appended to /tmp/mutants/eval.log.
set -u
ER=/tmp/evalrepo; EV=/tmp/evalverif
git -C /repo worktree remove --force $ER 2>/dev/null; git -C /verif worktree remove --force $EV 2>/dev/null
git -C /repo worktree add -q --detach $ER HEAD || exit 2
git -C /verif worktree add -q --detach $EV HEAD || exit 2
sed -i 's#pearl = { path = "/repo" }#pearl = { path = "/tmp/evalrepo" }#' $EV/sim/Cargo.toml
mkdir -p $EV/replays $EV/evidence
for spec in "$@"; do
  set -- $spec
  ID=$1; N=$2; shift 2
  echo "##### $ID-$N vs $*" >> /tmp/mutants/eval.log
  git -C $ER checkout -q -- . ; git -C $ER clean -fdq
  if ! git -C $ER apply /tmp/mutants/$ID/patch$N.diff 2>>/tmp/mutants/eval.log; then echo "APPLY FAILED $ID-$N" >> /tmp/mutants/eval.log; continue; fi
  for c in "$@"; do
    echo "=== $c" >> /tmp/mutants/eval.log
    (cd $EV && VERIF_BUDGET_S=${EVAL_BUDGET_S:-45} timeout 900 ./check $c --tier quick 2>&1 | grep -E "^VIOLATION|^  rule|^KNOWN|^C[0-9]+:|harness error" | cut -c1-260 | head -14) >> /tmp/mutants/eval.log
    find $EV/replays -name '*.json' -delete
  done
done
echo "ALL DONE" >> /tmp/mutants/eval.log

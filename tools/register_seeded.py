#!/usr/bin/env python3
"""register_seeded.py: (re)writes /verif/seeded/<id>/ for every confirmed candidate under /tmp/mutants from the
evaluation logs (final matrix = own property's quick check on the committed machinery; earlier rounds = other checks)."""
import re, os, json, shutil, sys
M = "/tmp/mutants"
needs = json.load(open(f"{M}/needs.json"))
def parse(path):
    out = {}
    if not os.path.exists(path): return out
    txt = open(path).read()
    for s in re.split(r'^##### ', txt, flags=re.M)[1:]:
        head = s.split('\n')[0]
        mid = head.split(' vs ')[0]
        for c in re.split(r'^=== ', s, flags=re.M)[1:]:
            name = c.split('\n')[0].strip()
            v = len(re.findall(r'^VIOLATION', c, flags=re.M))
            rules = sorted(set(re.findall(r'rule=(\S+)', c)))
            out.setdefault(mid, {})[name] = rules if v else None
    return out
final = parse(f"{M}/eval_final88.log")
for _k, _v in parse(f"{M}/eval.log").items():
    final.setdefault(_k, {}).update(_v)
earlier = {}
for f in ("eval_wave2a.log", "eval_wave2b.log"):
    for k, v in parse(f"{M}/{f}").items():
        for c, r in v.items():
            earlier.setdefault(k, {}).setdefault(c, r)
skip = {"C06-2": "neutralised: fix f8ec028 (RawRecords rejects a record that ends beyond the file) makes the changed code path unreachable; the demonstration passes with the change on the current tree",
        "C04-2": "neutralised for its demonstration by fix 4cc10ed (a failed index dump no longer empties the in-memory index): the demonstration passes with the change on the final tree; the identical change is kept as C13c-2, whose demonstration (index never dumped) still fails",
        "C08b-2": "neutralised for its demonstration by fix 032be71 (no O_APPEND on reopened blobs: concurrent appenders no longer interleave): the demonstration passes with the change on the final tree; the identical change is kept as C03b-1 and C06b-1",
        "C05b-1": "not confirmed: its timing-based demonstration did not fail under tools/verify_mutant.sh; the same change is kept as C14b-2 and C07b-1"}
kept = []
for d in sorted(os.listdir(M)):
    if not re.fullmatch(r'C\d\d[bc]?', d): continue
    for n in (1, 2):
        mid = f"{d}-{n}"
        if not os.path.exists(f"{M}/{d}/patch{n}.diff"): continue
        if mid in skip: continue
        dst = f"/verif/seeded/{mid}"
        old = json.load(open(f"{dst}/meta.json")) if os.path.exists(f"{dst}/meta.json") else {}
        os.makedirs(dst, exist_ok=True)
        shutil.copy(f"{M}/{d}/patch{n}.diff", f"{dst}/patch.diff")
        shutil.copy(f"{M}/{d}/demo{n}.rs", f"{dst}/demo.rs")
        for a, b in ((f"notes{n}.md", "notes.md"), (f"verify{n}.log", "verify.log"), (f"patch{n}.orig.diff", "patch.orig.diff"), (f"demo{n}.orig.rs", "demo.orig.rs")):
            if os.path.exists(f"{M}/{d}/{a}"): shutil.copy(f"{M}/{d}/{a}", f"{dst}/{b}")
        own = d.rstrip('bc')
        res = dict(earlier.get(mid, {})); res.update(final.get(mid, {}))
        caught = {c: r for c, r in res.items() if r}
        for c in old.get("caught_by_quick_checks", []):
            caught.setdefault(c, old.get("rules_fired", {}).get(c, ["(earlier evaluation round)"]))
        missed = [c for c, r in res.items() if not r and c not in caught]
        meta = {
            "breaks_property": own,
            "needs_to_manifest": needs.get(mid) or old.get("needs_to_manifest", ""),
            "confirmed": "tools/verify_mutant.sh in a scratch worktree of /repo HEAD: demo passes without the change; change applies and compiles; baseline suite (cargo test --workspace) passes with the change; demo fails with the change (see verify.log)",
            "checks_run": "tools/eval_mutants.sh (scratch worktrees of /repo HEAD + patch and of /verif HEAD; ./check <id> --tier quick with VERIF_BUDGET_S=45); in place: tools/run_against.sh patch.diff <checks>",
            "caught_by_quick_checks": sorted(caught),
            "rules_fired": caught,
            "run_but_not_caught_by": sorted(missed),
        }
        if os.path.exists(f"{M}/{d}/patch{n}.orig.diff"):
            meta["ported"] = "patch.diff is the same change re-made on the tree that contains the later repairs (the code around it changed); patch.orig.diff is what the agent delivered; re-confirmed with tools/verify_mutant.sh"
        if os.path.exists(f"{M}/{d}/demo{n}.orig.rs"):
            meta["demo_adjusted"] = "demo.rs differs from demo.orig.rs by one removed assertion that contradicted a later repair (see the comment in demo.rs); re-confirmed with tools/verify_mutant.sh"
        json.dump(meta, open(f"{dst}/meta.json", "w"), indent=1)
        kept.append((mid, own, sorted(caught), sorted(missed)))
json.dump({"not_kept": skip}, open("/verif/seeded/NOT_KEPT.json", "w"), indent=1)
for k in kept: print(*k)
print(len(kept), "kept")

#!/usr/bin/env python3
"""keep_mutant.py <PROP> <N> <caught_by comma list or '-'> <needs...>: copies a confirmed seeded change into /verif/seeded/<PROP>-<N>/"""
import sys, os, shutil, json
prop, n, caught = sys.argv[1], sys.argv[2], sys.argv[3]
rest = sys.argv[4:]
missed = []
if rest and rest[0].startswith("--missed="):
    missed = [x for x in rest[0][len("--missed="):].split(",") if x]
    rest = rest[1:]
needs = " ".join(rest)
src = f"/tmp/mutants/{prop}"
dst = f"/verif/seeded/{prop}-{n}"
os.makedirs(dst, exist_ok=True)
shutil.copy(f"{src}/patch{n}.diff", f"{dst}/patch.diff")
shutil.copy(f"{src}/demo{n}.rs", f"{dst}/demo.rs")
if os.path.exists(f"{src}/notes{n}.md"):
    shutil.copy(f"{src}/notes{n}.md", f"{dst}/notes.md")
if os.path.exists(f"{src}/verify{n}.log"):
    shutil.copy(f"{src}/verify{n}.log", f"{dst}/verify.log")
meta = {
  "breaks_property": prop.rstrip("b"),
  "needs_to_manifest": needs,
  "confirmed": "tools/verify_mutant.sh in a scratch worktree of /repo HEAD: demo passes without the change; change applies and compiles; baseline suite (cargo test --workspace) passes with the change; demo fails with the change (see verify.log)",
  "checks_run": "tools/run_against.sh patch.diff <checks> (git -C /repo apply; ./check <id> --tier quick; git -C /repo checkout -- .)",
  "caught_by_quick_checks": [] if caught == "-" else caught.split(","),
  "run_but_not_caught_by": missed,
}
json.dump(meta, open(f"{dst}/meta.json", "w"), indent=1)
print("kept", dst)
